import Uom.Proofs.KernelFloat
import Uom.Proofs.FlFold
/-!
# Float bounds for mixed-base-unit operators and comparisons

`l r : Fl` are the base factors of the left / right operand's base units, `a b : Fl` the stored values,
`cb = changeBase (flS f) l r b` the right operand re-expressed (with two roundings) in the left
operand's base units.  Exact reals: `A = a.toRat`, `B = b.toRat * r.toRat / l.toRat`.
-/

namespace Uom.Proofs
open Uom Uom.Fl

/-! ### 4a. comparisons of finite floats are the order of their values -/

theorem cmp_fin (s1 s2 : Bool) (m1 m2 : Nat) (e1 e2 : Int) :
    Fl.cmp (fin s1 m1 e1) (fin s2 m2 e2) =
      some (if sval s1 (m1 * 2 ^ (e1 - min e1 e2).toNat) < sval s2 (m2 * 2 ^ (e2 - min e1 e2).toNat)
        then -1
        else if sval s1 (m1 * 2 ^ (e1 - min e1 e2).toNat) = sval s2 (m2 * 2 ^ (e2 - min e1 e2).toNat)
        then 0 else 1) := by
  simp only [Fl.cmp]

/-- the three-way comparison of two finite floats is the three-way comparison of their values -/
theorem cmp_fin_toRat (s1 s2 : Bool) (m1 m2 : Nat) (e1 e2 : Int) :
    Fl.cmp (fin s1 m1 e1) (fin s2 m2 e2) =
      some (if (fin s1 m1 e1).toRat < (fin s2 m2 e2).toRat then -1
        else if (fin s1 m1 e1).toRat = (fin s2 m2 e2).toRat then 0 else 1) := by
  rw [cmp_fin, toRat_fin_shift s1 m1 e1 (min e1 e2) (by omega),
    toRat_fin_shift s2 m2 e2 (min e1 e2) (by omega)]
  have hE := two_zpow_pos (min e1 e2)
  generalize sval s1 (m1 * 2 ^ (e1 - min e1 e2).toNat) = a
  generalize sval s2 (m2 * 2 ^ (e2 - min e1 e2).toNat) = b
  have h1 : ((a : Rat) * (2 : Rat) ^ (min e1 e2) < (b : Rat) * (2 : Rat) ^ (min e1 e2)) ↔ a < b := by
    constructor
    · intro h
      have := lt_of_mul_lt_mul_right h hE.le
      exact_mod_cast this
    · intro h
      have : (a : Rat) < (b : Rat) := by exact_mod_cast h
      exact mul_lt_mul_of_pos_right this hE
  have h2 : ((a : Rat) * (2 : Rat) ^ (min e1 e2) = (b : Rat) * (2 : Rat) ^ (min e1 e2)) ↔ a = b := by
    constructor
    · intro h
      have := mul_right_cancel₀ hE.ne' h
      exact_mod_cast this
    · intro h; rw [h]
  simp only [h1, h2]

/-- **`cmp_toRat`**: on finite operands `Fl.cmp` is the three-way comparison of the exact values -/
theorem cmp_toRat {x y : Fl} (hx : x.isFinite = true) (hy : y.isFinite = true) :
    Fl.cmp x y = some (if x.toRat < y.toRat then -1 else if x.toRat = y.toRat then 0 else 1) := by
  cases x with
  | nan => simp [Fl.isFinite] at hx
  | inf s => simp [Fl.isFinite] at hx
  | fin s1 m1 e1 =>
    cases y with
    | nan => simp [Fl.isFinite] at hy
    | inf s => simp [Fl.isFinite] at hy
    | fin s2 m2 e2 => exact cmp_fin_toRat s1 s2 m1 m2 e1 e2

theorem lt_toRat {x y : Fl} (hx : x.isFinite = true) (hy : y.isFinite = true) :
    Fl.lt x y = true ↔ x.toRat < y.toRat := by
  unfold Fl.lt; rw [cmp_toRat hx hy]
  rcases lt_trichotomy x.toRat y.toRat with h | h | h
  · simp [h]
  · simp [h]
  · simp [h.not_gt, h.ne']

theorem feq_toRat {x y : Fl} (hx : x.isFinite = true) (hy : y.isFinite = true) :
    Fl.feq x y = true ↔ x.toRat = y.toRat := by
  unfold Fl.feq; rw [cmp_toRat hx hy]
  rcases lt_trichotomy x.toRat y.toRat with h | h | h
  · simp [h, h.ne]
  · simp [h]
  · simp [h.not_gt, h.ne']

theorem gt_toRat {x y : Fl} (hx : x.isFinite = true) (hy : y.isFinite = true) :
    Fl.gt x y = true ↔ y.toRat < x.toRat := by
  unfold Fl.gt; rw [cmp_toRat hx hy]
  rcases lt_trichotomy x.toRat y.toRat with h | h | h
  · simp [h, h.not_gt]
  · simp [h]
  · simp [h, h.not_gt, h.ne']

theorem le_toRat {x y : Fl} (hx : x.isFinite = true) (hy : y.isFinite = true) :
    Fl.le x y = true ↔ x.toRat ≤ y.toRat := by
  unfold Fl.le; rw [cmp_toRat hx hy]
  rcases lt_trichotomy x.toRat y.toRat with h | h | h
  · simp [h, h.le]
  · simp [h]
  · simp [h.not_gt, h.ne', h.not_ge]

theorem ge_toRat {x y : Fl} (hx : x.isFinite = true) (hy : y.isFinite = true) :
    Fl.ge x y = true ↔ y.toRat ≤ x.toRat := by
  unfold Fl.ge; rw [cmp_toRat hx hy]
  rcases lt_trichotomy x.toRat y.toRat with h | h | h
  · simp [h, h.not_ge]
  · simp [h]
  · simp [h.not_gt, h.ne', h.le]

theorem lt_eq_false_toRat {x y : Fl} (hx : x.isFinite = true) (hy : y.isFinite = true) :
    Fl.lt x y = false ↔ y.toRat ≤ x.toRat := by
  rw [← not_lt, ← lt_toRat hx hy]; simp

/-! ### two-sided bounds from `Approx`, by the sign of the exact value -/

section generic
variable {K : Type*} [Field K] [LinearOrder K] [IsStrictOrderedRing K]
variable {u : K} {k : ℕ} {xh x : K}

theorem Approx.bounds_pos (h : Approx u k xh x) (hx : 0 ≤ x) :
    x * (1 - u) ^ k ≤ xh ∧ xh * (1 - u) ^ k ≤ x := by
  obtain ⟨θ, rfl, h1, h2⟩ := h
  refine ⟨mul_le_mul_of_nonneg_left h1 hx, ?_⟩
  calc x * θ * (1 - u) ^ k = x * (θ * (1 - u) ^ k) := by ring
    _ ≤ x * 1 := mul_le_mul_of_nonneg_left h2 hx
    _ = x := by ring

theorem Approx.bounds_neg (h : Approx u k xh x) (hx : x ≤ 0) :
    xh ≤ x * (1 - u) ^ k ∧ x ≤ xh * (1 - u) ^ k := by
  obtain ⟨θ, rfl, h1, h2⟩ := h
  refine ⟨mul_le_mul_of_nonpos_left h1 hx, ?_⟩
  calc x = x * 1 := by ring
    _ ≤ x * (θ * (1 - u) ^ k) := mul_le_mul_of_nonpos_left h2 hx
    _ = x * θ * (1 - u) ^ k := by ring

/-- an approximation has the sign of the exact value -/
theorem Approx.pos_iff (hu1 : u < 1) (h : Approx u k xh x) : 0 < xh ↔ 0 < x := by
  obtain ⟨θ, rfl, h1, -⟩ := h
  have hθ0 : 0 < θ := lt_of_lt_of_le (pow_pos (by linarith) k) h1
  constructor
  · intro hpos
    by_contra hx
    have : x * θ ≤ 0 := mul_nonpos_of_nonpos_of_nonneg (not_lt.mp hx) hθ0.le
    linarith
  · intro hx; exact mul_pos hx hθ0

theorem Approx.neg_iff (hu1 : u < 1) (h : Approx u k xh x) : xh < 0 ↔ x < 0 := by
  obtain ⟨θ, rfl, h1, -⟩ := h
  have hθ0 : 0 < θ := lt_of_lt_of_le (pow_pos (by linarith) k) h1
  constructor
  · intro hneg
    by_contra hx
    have : 0 ≤ x * θ := mul_nonneg (not_lt.mp hx) hθ0.le
    linarith
  · intro hx; exact mul_neg_of_neg_of_pos hx hθ0

theorem Approx.eq_zero_iff (hu1 : u < 1) (h : Approx u k xh x) : xh = 0 ↔ x = 0 := by
  constructor
  · intro h0
    by_contra hx
    exact (Approx.ne_zero hu1 h hx) h0
  · intro hx; subst hx; exact Approx.eq_zero_of_zero h

/-- linearised bound: `k` roundings cost at most `(k+1)·u` relative error once `k(k+1)u ≤ 1`
    (e.g. `Approx u 3` gives `4u` for `u ≤ 1/12`, `Approx u 6` gives `7u` for `u ≤ 1/42`) -/
theorem Approx.abs_sub_le_succ {u : K} {k : ℕ} {xh x : K} (hu0 : 0 ≤ u) (hu1 : u < 1)
    (hk : ((k : K) + 1) * (k : K) * u ≤ 1) (h : Approx u k xh x) :
    |xh - x| ≤ ((k : K) + 1) * u * |x| := by
  have hg := Approx.abs_sub_le_gamma hu0 hu1 h
  have hk0 : (0 : K) ≤ k := Nat.cast_nonneg k
  set c : K := (k : K) * u with hc
  have hc0 : 0 ≤ c := mul_nonneg hk0 hu0
  have hx0 : 0 ≤ |x| := abs_nonneg x
  -- `c·(c+u) ≤ u`
  have h1 : c * (c + u) ≤ u := by
    have : c * (c + u) = u * (((k : K) + 1) * (k : K) * u) := by rw [hc]; ring
    rw [this]
    calc u * (((k : K) + 1) * (k : K) * u) ≤ u * 1 := mul_le_mul_of_nonneg_left hk hu0
      _ = u := by ring
  -- `c ≤ 1/2 < 1` unless `k = 0`
  have hc1 : c < 1 := by
    rcases Nat.eq_zero_or_pos k with h0 | hpos
    · rw [hc, h0]; simp
    · have hk1 : (1 : K) ≤ k := by exact_mod_cast hpos
      have : 2 * c ≤ ((k : K) + 1) * c := mul_le_mul_of_nonneg_right (by linarith) hc0
      have h2 : ((k : K) + 1) * c = ((k : K) + 1) * (k : K) * u := by rw [hc]; ring
      linarith
  have hpos : 0 < 1 - c := by linarith
  have h2 : c ≤ (c + u) * (1 - c) := by nlinarith
  have h3 : |xh - x| * (1 - c) ≤ ((c + u) * |x|) * (1 - c) := by
    calc |xh - x| * (1 - c) ≤ c * |x| := hg
      _ ≤ ((c + u) * (1 - c)) * |x| := mul_le_mul_of_nonneg_right h2 hx0
      _ = ((c + u) * |x|) * (1 - c) := by ring
  have h4 := le_of_mul_le_mul_right h3 hpos
  calc |xh - x| ≤ (c + u) * |x| := h4
    _ = ((k : K) + 1) * u * |x| := by rw [hc]; ring


end generic

/-! ### the re-based right operand -/

section mixed
variable {f : Fmt} {l r a b : Fl}

/-- the result of a well-conditioned `changeBase` is finite, with exponent `≥ emin` -/
theorem changeBase_flS_ok (hp : 1 ≤ f.p) {l r v : Fl} (H : ChangeBaseOk f l r v) :
    Ok f (changeBase (flS f) l r v) := by
  rw [changeBase_flS]
  split
  next h => exact (mul_approx hp H.hv (H.quot₁ h).1 (H.prod₁ h).2 (H.prod₁ h).1).2
  next h => exact (div_approx hp H.hv (H.quot₂ h).1 (H.div₂ h).2 (H.div₂ h).1).2

theorem changeBase_flS_isFinite (hp : 1 ≤ f.p) {l r v : Fl} (H : ChangeBaseOk f l r v) :
    Fl.isFinite (changeBase (flS f) l r v) = true :=
  (changeBase_flS_ok hp H).isFinite

/-! ### 4b. mixed-base comparisons -/

/-- `B > 0`, `A < B·(1-u)²`  ⇒  `a < change_base(b)` -/
theorem lt_mixed_sound (hp : 1 ≤ f.p) (H : ChangeBaseOk f l r b) (ha : a.isFinite = true)
    (hB : 0 < b.toRat * r.toRat / l.toRat)
    (h : a.toRat < b.toRat * r.toRat / l.toRat * (1 - uro f) ^ 2) :
    Fl.lt a (changeBase (flS f) l r b) = true := by
  rw [lt_toRat ha (changeBase_flS_isFinite hp H)]
  have hb := (changeBase_flS_approx hp H).bounds_pos hB.le
  exact lt_of_lt_of_le h hb.1

/-- `B > 0`, `B ≤ A·(1-u)²`  ⇒  `¬ a < change_base(b)` -/
theorem lt_mixed_sound_false (hp : 1 ≤ f.p) (H : ChangeBaseOk f l r b) (ha : a.isFinite = true)
    (hB : 0 < b.toRat * r.toRat / l.toRat)
    (h : b.toRat * r.toRat / l.toRat ≤ a.toRat * (1 - uro f) ^ 2) :
    Fl.lt a (changeBase (flS f) l r b) = false := by
  rw [lt_eq_false_toRat ha (changeBase_flS_isFinite hp H)]
  have hb := (changeBase_flS_approx hp H).bounds_pos hB.le
  have hpos : 0 < (1 - uro f) ^ 2 := pow_pos (by linarith [uro_lt_one f hp]) 2
  exact le_of_mul_le_mul_right (le_trans hb.2 h) hpos

/-- `B < 0`, `A·(1-u)² < B`  ⇒  `a < change_base(b)` -/
theorem lt_mixed_sound_neg (hp : 1 ≤ f.p) (H : ChangeBaseOk f l r b) (ha : a.isFinite = true)
    (hB : b.toRat * r.toRat / l.toRat < 0)
    (h : a.toRat * (1 - uro f) ^ 2 < b.toRat * r.toRat / l.toRat) :
    Fl.lt a (changeBase (flS f) l r b) = true := by
  rw [lt_toRat ha (changeBase_flS_isFinite hp H)]
  have hb := (changeBase_flS_approx hp H).bounds_neg hB.le
  have hpos : 0 < (1 - uro f) ^ 2 := pow_pos (by linarith [uro_lt_one f hp]) 2
  exact lt_of_mul_lt_mul_right (lt_of_lt_of_le h hb.2) hpos.le

/-- `B < 0`, `B·(1-u)² ≤ A`  ⇒  `¬ a < change_base(b)` -/
theorem lt_mixed_sound_neg_false (hp : 1 ≤ f.p) (H : ChangeBaseOk f l r b) (ha : a.isFinite = true)
    (hB : b.toRat * r.toRat / l.toRat < 0)
    (h : b.toRat * r.toRat / l.toRat * (1 - uro f) ^ 2 ≤ a.toRat) :
    Fl.lt a (changeBase (flS f) l r b) = false := by
  rw [lt_eq_false_toRat ha (changeBase_flS_isFinite hp H)]
  have hb := (changeBase_flS_approx hp H).bounds_neg hB.le
  exact le_trans hb.1 h

/-- `B = 0`: the comparison is exact -/
theorem lt_mixed_zero (hp : 1 ≤ f.p) (H : ChangeBaseOk f l r b) (ha : a.isFinite = true)
    (hB : b.toRat * r.toRat / l.toRat = 0) :
    Fl.lt a (changeBase (flS f) l r b) = true ↔ a.toRat < 0 := by
  rw [lt_toRat ha (changeBase_flS_isFinite hp H)]
  have h0 : Fl.toRat (changeBase (flS f) l r b) = 0 := by
    have := changeBase_flS_approx hp H
    rw [hB] at this
    exact this.eq_zero_of_zero
  rw [h0]

/-- sign-free form: a gap of `ρ·|B|`, `ρ = (1-u)^(-2) - 1`, decides the comparison -/
theorem lt_mixed_of_gap (hp : 1 ≤ f.p) (H : ChangeBaseOk f l r b) (ha : a.isFinite = true)
    (h : a.toRat < b.toRat * r.toRat / l.toRat -
      ((1 - uro f) ^ (-(2 : ℤ)) - 1) * |b.toRat * r.toRat / l.toRat|) :
    Fl.lt a (changeBase (flS f) l r b) = true := by
  rw [lt_toRat ha (changeBase_flS_isFinite hp H)]
  have hb := Approx.abs_sub_le' (uro_nonneg f) (uro_lt_one f hp) (changeBase_flS_approx hp H)
  have := (abs_le.mp hb).1
  push_cast at this
  linarith

theorem lt_mixed_false_of_gap (hp : 1 ≤ f.p) (H : ChangeBaseOk f l r b) (ha : a.isFinite = true)
    (h : b.toRat * r.toRat / l.toRat +
      ((1 - uro f) ^ (-(2 : ℤ)) - 1) * |b.toRat * r.toRat / l.toRat| ≤ a.toRat) :
    Fl.lt a (changeBase (flS f) l r b) = false := by
  rw [lt_eq_false_toRat ha (changeBase_flS_isFinite hp H)]
  have hb := Approx.abs_sub_le' (uro_nonneg f) (uro_lt_one f hp) (changeBase_flS_approx hp H)
  have := (abs_le.mp hb).2
  push_cast at this
  linarith

/-- `B > 0`, `B < A·(1-u)²`  ⇒  `a > change_base(b)` -/
theorem gt_mixed_sound (hp : 1 ≤ f.p) (H : ChangeBaseOk f l r b) (ha : a.isFinite = true)
    (hB : 0 < b.toRat * r.toRat / l.toRat)
    (h : b.toRat * r.toRat / l.toRat < a.toRat * (1 - uro f) ^ 2) :
    Fl.gt a (changeBase (flS f) l r b) = true := by
  rw [gt_toRat ha (changeBase_flS_isFinite hp H)]
  have hb := (changeBase_flS_approx hp H).bounds_pos hB.le
  have hpos : 0 < (1 - uro f) ^ 2 := pow_pos (by linarith [uro_lt_one f hp]) 2
  exact lt_of_mul_lt_mul_right (lt_of_le_of_lt hb.2 h) hpos.le

/-- `B > 0`, `A < B·(1-u)²`  ⇒  `a ≤ change_base(b)` and not `a == change_base(b)` -/
theorem le_mixed_sound (hp : 1 ≤ f.p) (H : ChangeBaseOk f l r b) (ha : a.isFinite = true)
    (hB : 0 < b.toRat * r.toRat / l.toRat)
    (h : a.toRat < b.toRat * r.toRat / l.toRat * (1 - uro f) ^ 2) :
    Fl.le a (changeBase (flS f) l r b) = true ∧ Fl.feq a (changeBase (flS f) l r b) = false := by
  have hfin := changeBase_flS_isFinite hp H
  have hlt := (lt_toRat ha hfin).mp (lt_mixed_sound hp H ha hB h)
  refine ⟨(le_toRat ha hfin).mpr hlt.le, ?_⟩
  rw [← Bool.not_eq_true, feq_toRat ha hfin]
  exact hlt.ne

/-- float equality across bases pins the physical magnitudes to within `ρ·|B|` -/
theorem feq_mixed_sound (hp : 1 ≤ f.p) (H : ChangeBaseOk f l r b) (ha : a.isFinite = true)
    (h : Fl.feq a (changeBase (flS f) l r b) = true) :
    |a.toRat - b.toRat * r.toRat / l.toRat| ≤
      ((1 - uro f) ^ (-(2 : ℤ)) - 1) * |b.toRat * r.toRat / l.toRat| := by
  rw [feq_toRat ha (changeBase_flS_isFinite hp H)] at h
  rw [h]
  simpa using Approx.abs_sub_le' (uro_nonneg f) (uro_lt_one f hp) (changeBase_flS_approx hp H)

/-- the re-based operand has the sign of the physical magnitude -/
theorem changeBase_flS_pos_iff (hp : 1 ≤ f.p) (H : ChangeBaseOk f l r b) :
    0 < Fl.toRat (changeBase (flS f) l r b) ↔ 0 < b.toRat * r.toRat / l.toRat :=
  (changeBase_flS_approx hp H).pos_iff (uro_lt_one f hp)

/-! ### 1–3. mixed-base `*`, `/`, `+`, `-` -/

/-- **`a * change_base(b)`: three roundings** -/
theorem mul_mixed_approx (hp : 1 ≤ f.p) (H : ChangeBaseOk f l r b) (ha : a.isFinite = true)
    (hN : nmin f ≤ |a.toRat * Fl.toRat (changeBase (flS f) l r b)|)
    (hfin : (Fl.mul f a (changeBase (flS f) l r b)).isFinite = true) :
    Approx (uro f) 3 (Fl.mul f a (changeBase (flS f) l r b)).toRat
      (a.toRat * (b.toRat * r.toRat / l.toRat)) ∧
    Ok f (Fl.mul f a (changeBase (flS f) l r b)) := by
  have hu0 := uro_nonneg f
  have hu1 := uro_lt_one f hp
  obtain ⟨hm, hok⟩ := mul_approx hp ha (changeBase_flS_isFinite hp H) hN hfin
  exact ⟨Approx.trans hu1 hm (Approx.mul hu0 hu1 (Approx.refl _) (changeBase_flS_approx hp H)), hok⟩

/-- **`a / change_base(b)`: three roundings** -/
theorem div_mixed_approx (hp : 1 ≤ f.p) (H : ChangeBaseOk f l r b) (ha : a.isFinite = true)
    (hN : nmin f ≤ |a.toRat / Fl.toRat (changeBase (flS f) l r b)|)
    (hfin : (Fl.div f a (changeBase (flS f) l r b)).isFinite = true) :
    Approx (uro f) 3 (Fl.div f a (changeBase (flS f) l r b)).toRat
      (a.toRat / (b.toRat * r.toRat / l.toRat)) ∧
    Ok f (Fl.div f a (changeBase (flS f) l r b)) := by
  have hu0 := uro_nonneg f
  have hu1 := uro_lt_one f hp
  obtain ⟨hm, hok⟩ := div_approx hp ha (changeBase_flS_isFinite hp H) hN hfin
  exact ⟨Approx.trans hu1 hm (Approx.div hu0 hu1 (Approx.refl _) (changeBase_flS_approx hp H)), hok⟩

/-- the arithmetic of "one rounding of `A + B̂`, `B̂` a `k`-rounding approximation of `B`" -/
theorem abs_add_round_le {u A B Bh δ ρ : Rat} (hu0 : 0 ≤ u) (hδ : |δ| ≤ u)
    (hB : |Bh - B| ≤ ρ * |B|) :
    |(A + Bh) * (1 + δ) - (A + B)| ≤ ρ * |B| * (1 + u) + u * |A + B| := by
  have h2 : |δ * (A + Bh)| ≤ u * |A + Bh| := by
    rw [abs_mul]; exact mul_le_mul_of_nonneg_right hδ (abs_nonneg _)
  have h3 : |A + Bh| ≤ |Bh - B| + |A + B| := by
    have : A + Bh = (Bh - B) + (A + B) := by ring
    rw [this]; exact abs_add_le _ _
  have h4 : |(A + Bh) * (1 + δ) - (A + B)| ≤ |δ * (A + Bh)| + |Bh - B| := by
    have : (A + Bh) * (1 + δ) - (A + B) = δ * (A + Bh) + (Bh - B) := by ring
    rw [this]; exact abs_add_le _ _
  have h5 : u * |A + Bh| ≤ u * (|Bh - B| + |A + B|) := mul_le_mul_of_nonneg_left h3 hu0
  have h6 : |Bh - B| * (1 + u) ≤ ρ * |B| * (1 + u) := mul_le_mul_of_nonneg_right hB (by linarith)
  calc |(A + Bh) * (1 + δ) - (A + B)| ≤ u * (|Bh - B| + |A + B|) + |Bh - B| := by linarith
    _ = |Bh - B| * (1 + u) + u * |A + B| := by ring
    _ ≤ _ := by linarith

/-- **`a + change_base(b)`: absolute error** `≤ ρ·|B|·(1+u) + u·|A+B|`, `ρ = (1-u)^(-2) - 1` -/
theorem add_mixed_abs (hp : 1 ≤ f.p) (H : ChangeBaseOk f l r b) (ha : Ok f a)
    (hfin : (Fl.add f a (changeBase (flS f) l r b)).isFinite = true) :
    |(Fl.add f a (changeBase (flS f) l r b)).toRat - (a.toRat + b.toRat * r.toRat / l.toRat)| ≤
      ((1 - uro f) ^ (-(2 : ℤ)) - 1) * |b.toRat * r.toRat / l.toRat| * (1 + uro f)
        + uro f * |a.toRat + b.toRat * r.toRat / l.toRat| := by
  have hu0 := uro_nonneg f
  have hu1 := uro_lt_one f hp
  obtain ⟨⟨δ, hδ, hδu⟩, -⟩ := add_rel_ok hp ha (changeBase_flS_ok hp H) hfin
  have hB : |Fl.toRat (changeBase (flS f) l r b) - b.toRat * r.toRat / l.toRat| ≤
      ((1 - uro f) ^ (-(2 : ℤ)) - 1) * |b.toRat * r.toRat / l.toRat| := by
    simpa using Approx.abs_sub_le' hu0 hu1 (changeBase_flS_approx hp H)
  rw [hδ]
  exact abs_add_round_le hu0 hδu hB

/-- **`a - change_base(b)`: absolute error** `≤ ρ·|B|·(1+u) + u·|A-B|` -/
theorem sub_mixed_abs (hp : 1 ≤ f.p) (H : ChangeBaseOk f l r b) (ha : Ok f a)
    (hfin : (Fl.sub f a (changeBase (flS f) l r b)).isFinite = true) :
    |(Fl.sub f a (changeBase (flS f) l r b)).toRat - (a.toRat - b.toRat * r.toRat / l.toRat)| ≤
      ((1 - uro f) ^ (-(2 : ℤ)) - 1) * |b.toRat * r.toRat / l.toRat| * (1 + uro f)
        + uro f * |a.toRat - b.toRat * r.toRat / l.toRat| := by
  have hu0 := uro_nonneg f
  have hu1 := uro_lt_one f hp
  obtain ⟨⟨δ, hδ, hδu⟩, -⟩ := sub_rel_ok hp ha (changeBase_flS_ok hp H) hfin
  have hB : |(-Fl.toRat (changeBase (flS f) l r b)) - (-(b.toRat * r.toRat / l.toRat))| ≤
      ((1 - uro f) ^ (-(2 : ℤ)) - 1) * |-(b.toRat * r.toRat / l.toRat)| := by
    have := Approx.abs_sub_le' hu0 hu1 (changeBase_flS_approx hp H)
    rw [abs_neg, ← abs_neg]
    simpa [neg_sub, sub_eq_add_neg, add_comm] using this
  have := abs_add_round_le (A := a.toRat) hu0 hδu hB
  rw [abs_neg] at this
  rw [hδ]
  simpa [sub_eq_add_neg] using this

/-- the sum itself is `Ok` (so that it can be chained) -/
theorem add_mixed_ok (hp : 1 ≤ f.p) (H : ChangeBaseOk f l r b) (ha : Ok f a)
    (hfin : (Fl.add f a (changeBase (flS f) l r b)).isFinite = true) :
    Ok f (Fl.add f a (changeBase (flS f) l r b)) :=
  (add_rel_ok hp ha (changeBase_flS_ok hp H) hfin).2

theorem sub_mixed_ok (hp : 1 ≤ f.p) (H : ChangeBaseOk f l r b) (ha : Ok f a)
    (hfin : (Fl.sub f a (changeBase (flS f) l r b)).isFinite = true) :
    Ok f (Fl.sub f a (changeBase (flS f) l r b)) :=
  (sub_rel_ok hp ha (changeBase_flS_ok hp H) hfin).2

end mixed

/-! ### 5a. (C16) `floor/ceil/round/trunc` in a unit: three roundings around the integer-valued `op` -/

/-- `q.floor::<N>()` etc.: `Self::new::<N>(self.get::<N>().op())`; the stored result is the exact
    affine image of `op (get)` up to three roundings.  `op` is arbitrary (in particular `Fl.floor f`,
    `Fl.ceil f`, `Fl.round f`, `Fl.trunc f`). -/
theorem roundInUnit_float_approx {f : Fmt} (hp : 1 ≤ f.p) (op : Fl → Fl) {coef cA cS fac v : Fl}
    (H : ToBaseOk f coef cA fac (op (fromBase (flS f) coef cS fac v))) :
    Approx (uro f) 3 (Fl.toRat (roundInUnit (flS f) op coef cA cS fac v))
      (((op (fromBase (flS f) coef cS fac v)).toRat + cA.toRat) * coef.toRat / fac.toRat) ∧
    Ok f (roundInUnit (flS f) op coef cA cS fac v) :=
  toBase_flS_approx hp H

/-! ### 5b. `floor`, `ceil`, `round`, `trunc` are the mathematical roundings (canonical finite operands) -/

section toInt
variable {f : Fmt}

/-- characterisation of core `Rat.floor` -/
theorem rat_floor_eq {a : Rat} {z : Int} (h1 : (z : Rat) ≤ a) (h2 : a < (z : Rat) + 1) : a.floor = z := by
  have h3 : z ≤ a.floor := Rat.le_floor_iff.mpr h1
  have h4 : a.floor < z + 1 := Rat.floor_lt_iff.mpr (by push_cast; exact h2)
  omega

/-- integers below `2^p` are exactly representable: `ofNatSigned` is exact -/
theorem ofNatSigned_toRat (hf : f.WF) (s : Bool) {n : Nat} (hn : n < 2 ^ f.p) :
    (ofNatSigned f s n).toRat = sgn s * (n : Rat) ∧ (ofNatSigned f s n).isFinite = true := by
  unfold ofNatSigned
  by_cases h0 : n = 0
  · rw [if_pos h0, h0]; exact ⟨by rw [toRat_zero]; simp, rfl⟩
  · rw [if_neg h0]
    have hlog : n.log2 < f.p := (Nat.log2_lt h0).mpr hn
    have hmin := hf.hmin
    have hmax := hf.hmax
    have hsh : max ((n.log2 : Int) + 1 - f.p) (f.emin - 0) ≤ 0 := by omega
    have hfin : (roundDy f s n 0).isFinite = true := by
      unfold roundDy
      simp only [if_pos hsh]
      split
      · next h => exfalso; omega
      · rfl
    refine ⟨?_, hfin⟩
    rw [Uom.Proofs.roundDy_exact f s n 0 hsh hfin]; simp

/-- a finite float with negative exponent as sign · (integer part + fraction) -/
theorem toRat_decomp (s : Bool) (m : Nat) (e : Int) (he : e < 0) :
    ∃ ρ : Rat, (fin s m e).toRat = sgn s * (((m / 2 ^ (-e).toNat : Nat) : Rat) + ρ) ∧ 0 ≤ ρ ∧ ρ < 1 ∧
      (ρ = 0 ↔ m % 2 ^ (-e).toNat = 0) ∧ (1 / 2 ≤ ρ ↔ 2 ^ (-e).toNat ≤ 2 * (m % 2 ^ (-e).toNat)) := by
  obtain ⟨n, hn⟩ : ∃ n : Nat, e = -(n : Int) := ⟨(-e).toNat, by omega⟩
  subst hn
  have hn' : (-(-(n : Int))).toNat = n := by omega
  rw [hn', toRat_fin, zpow_neg, zpow_natCast]
  have hP : (0 : Rat) < 2 ^ n := by positivity
  have hdm : (m : Rat) = (2 : Rat) ^ n * ((m / 2 ^ n : Nat) : Rat) + ((m % 2 ^ n : Nat) : Rat) := by
    have := Nat.div_add_mod m (2 ^ n)
    exact_mod_cast this.symm
  have hr : ((m % 2 ^ n : Nat) : Rat) < (2 : Rat) ^ n := by
    have := Nat.mod_lt m (Nat.two_pow_pos n)
    exact_mod_cast this
  refine ⟨((m % 2 ^ n : Nat) : Rat) / 2 ^ n, ?_, by positivity, ?_, ?_, ?_⟩
  · rw [hdm]; field_simp
  · rw [div_lt_one hP]; exact hr
  · rw [div_eq_zero_iff]
    constructor
    · rintro (h | h)
      · exact_mod_cast h
      · exact absurd h hP.ne'
    · intro h; left; exact_mod_cast h
  · rw [le_div_iff₀ hP]
    constructor
    · intro h
      have : (2 : Rat) ^ n ≤ 2 * ((m % 2 ^ n : Nat) : Rat) := by linarith
      exact_mod_cast this
    · intro h
      have : (2 : Rat) ^ n ≤ 2 * ((m % 2 ^ n : Nat) : Rat) := by exact_mod_cast h
      linarith

theorem sgn_false : sgn false = 1 := rfl
theorem sgn_true : sgn true = -1 := rfl

theorem floor_nat_add {q : Nat} {ρ : Rat} (h0 : 0 ≤ ρ) (h1 : ρ < 1) :
    ((q : Rat) + ρ).floor = (q : Int) :=
  rat_floor_eq (by push_cast; linarith) (by push_cast; linarith)

theorem floor_neg_nat_add {q : Nat} {ρ : Rat} (h0 : 0 < ρ) (h1 : ρ < 1) :
    (-((q : Rat) + ρ)).floor = -((q : Int) + 1) :=
  rat_floor_eq (by push_cast; linarith) (by push_cast; linarith)

theorem floor_neg_nat (q : Nat) : (-(q : Rat)).floor = -(q : Int) :=
  rat_floor_eq (by push_cast; linarith) (by push_cast; linarith)

theorem floor_nat_add_half_lo {q : Nat} {ρ : Rat} (h0 : 0 ≤ ρ) (h1 : ρ < 1 / 2) :
    ((q : Rat) + ρ + 1 / 2).floor = (q : Int) :=
  rat_floor_eq (by push_cast; linarith) (by push_cast; linarith)

theorem floor_nat_add_half_hi {q : Nat} {ρ : Rat} (h0 : 1 / 2 ≤ ρ) (h1 : ρ < 1) :
    ((q : Rat) + ρ + 1 / 2).floor = (q : Int) + 1 :=
  rat_floor_eq (by push_cast; linarith) (by push_cast; linarith)

theorem toRat_int_of_nonneg (s : Bool) (m : Nat) (e : Int) (he : 0 ≤ e) :
    (fin s m e).toRat = ((sval s (m * 2 ^ e.toNat) : Int) : Rat) := by
  have := toRat_fin_shift s m e 0 he
  simpa using this

theorem canonical_lt {s : Bool} {m : Nat} {e : Int} (hc : Canonical f (fin s m e)) :
    m < 2 ^ f.p := by
  simp only [Canonical] at hc
  have : 2 ^ (f.p - 1) ≤ 2 ^ f.p := Nat.pow_le_pow_right (by norm_num) (Nat.sub_le _ _)
  omega

theorem quot_succ_lt (hf : f.WF) {m : Nat} (hm : m < 2 ^ f.p) (n : Nat) (hn : 0 < n) :
    m / 2 ^ n + 1 < 2 ^ f.p := by
  have h2 : 2 ≤ 2 ^ n := by
    calc 2 = 2 ^ 1 := rfl
      _ ≤ 2 ^ n := Nat.pow_le_pow_right (by norm_num) hn
  have h1 : m / 2 ^ n ≤ m / 2 := Nat.div_le_div_left h2 (by norm_num)
  have hp : 1 < 2 ^ f.p := Nat.one_lt_two_pow (by have := hf.hp; omega)
  omega

theorem floor_fin_nonneg (s : Bool) (m : Nat) (e : Int) (he : 0 ≤ e) :
    Fl.floor f (fin s m e) = fin s m e := by
  simp only [Fl.floor, ge_iff_le, if_pos he]

theorem floor_fin_neg (s : Bool) (m : Nat) (e : Int) (he : e < 0) :
    Fl.floor f (fin s m e) =
      if (s && (m % 2 ^ (-e).toNat != 0)) = true then ofNatSigned f true (m / 2 ^ (-e).toNat + 1)
      else ofNatSigned f s (m / 2 ^ (-e).toNat) := by
  have : ¬ e ≥ 0 := by omega
  simp only [Fl.floor, truncMag, if_neg this]

/-- **`floor` is the mathematical floor** on canonical finite values, and the result is finite -/
theorem floor_toRat (hf : f.WF) {x : Fl} (hc : Canonical f x) (hx : x.isFinite = true) :
    (Fl.floor f x).toRat = ((x.toRat.floor : Int) : Rat) ∧ (Fl.floor f x).isFinite = true := by
  cases x with
  | nan => simp [Fl.isFinite] at hx
  | inf s => simp [Fl.isFinite] at hx
  | fin s m e =>
    by_cases he : 0 ≤ e
    · rw [floor_fin_nonneg s m e he, toRat_int_of_nonneg s m e he, Rat.floor_intCast]
      exact ⟨rfl, rfl⟩
    · have he' : e < 0 := by omega
      have hm : m < 2 ^ f.p := canonical_lt hc
      obtain ⟨ρ, hval, h0, h1, hz, -⟩ := toRat_decomp s m e he'
      have hq := quot_succ_lt hf hm (-e).toNat (by omega)
      rw [floor_fin_neg s m e he', hval]
      generalize m / 2 ^ (-e).toNat = q at *
      generalize m % 2 ^ (-e).toNat = r at *
      cases s
      · obtain ⟨hv, hfin⟩ := ofNatSigned_toRat hf false (show q < 2 ^ f.p by omega)
        simp only [Bool.false_and, Bool.false_eq_true, if_false]
        refine ⟨?_, hfin⟩
        rw [hv, sgn_false, one_mul, one_mul, floor_nat_add h0 h1]; simp
      · by_cases hr : r = 0
        · have hρ : ρ = 0 := hz.mpr hr
          obtain ⟨hv, hfin⟩ := ofNatSigned_toRat hf true (show q < 2 ^ f.p by omega)
          simp only [hr, bne_self_eq_false, Bool.and_false, Bool.false_eq_true, if_false]
          refine ⟨?_, hfin⟩
          rw [hv, hρ, add_zero, sgn_true, neg_one_mul, floor_neg_nat]; simp
        · have hρ : 0 < ρ := lt_of_le_of_ne h0 (fun h => hr (hz.mp h.symm))
          obtain ⟨hv, hfin⟩ := ofNatSigned_toRat hf true hq
          have hb : (r != 0) = true := by simpa using hr
          simp only [hb, Bool.and_self, if_true]
          refine ⟨?_, hfin⟩
          rw [hv, sgn_true, neg_one_mul, neg_one_mul, floor_neg_nat_add hρ h1]; push_cast; ring

/-! #### ceil -/

theorem ceil_fin_nonneg (s : Bool) (m : Nat) (e : Int) (he : 0 ≤ e) :
    Fl.ceil f (fin s m e) = fin s m e := by
  simp only [Fl.ceil, ge_iff_le, if_pos he]

theorem ceil_fin_neg (s : Bool) (m : Nat) (e : Int) (he : e < 0) :
    Fl.ceil f (fin s m e) =
      if (!s && (m % 2 ^ (-e).toNat != 0)) = true then ofNatSigned f false (m / 2 ^ (-e).toNat + 1)
      else ofNatSigned f s (m / 2 ^ (-e).toNat) := by
  have : ¬ e ≥ 0 := by omega
  simp only [Fl.ceil, truncMag, if_neg this]

theorem neg_intCast_floor (z : Int) : (-(z : Rat)).floor = -z := by
  have : (-(z : Rat)) = ((-z : Int) : Rat) := by push_cast; ring
  rw [this, Rat.floor_intCast]

/-- **`ceil` is the mathematical ceiling** `-⌊-x⌋` on canonical finite values -/
theorem ceil_toRat (hf : f.WF) {x : Fl} (hc : Canonical f x) (hx : x.isFinite = true) :
    (Fl.ceil f x).toRat = ((-((-x.toRat).floor) : Int) : Rat) ∧ (Fl.ceil f x).isFinite = true := by
  cases x with
  | nan => simp [Fl.isFinite] at hx
  | inf s => simp [Fl.isFinite] at hx
  | fin s m e =>
    by_cases he : 0 ≤ e
    · rw [ceil_fin_nonneg s m e he, toRat_int_of_nonneg s m e he, neg_intCast_floor, neg_neg]
      exact ⟨rfl, rfl⟩
    · have he' : e < 0 := by omega
      have hm : m < 2 ^ f.p := canonical_lt hc
      obtain ⟨ρ, hval, h0, h1, hz, -⟩ := toRat_decomp s m e he'
      have hq := quot_succ_lt hf hm (-e).toNat (by omega)
      rw [ceil_fin_neg s m e he', hval]
      generalize m / 2 ^ (-e).toNat = q at *
      generalize m % 2 ^ (-e).toNat = r at *
      cases s
      · by_cases hr : r = 0
        · have hρ : ρ = 0 := hz.mpr hr
          obtain ⟨hv, hfin⟩ := ofNatSigned_toRat hf false (show q < 2 ^ f.p by omega)
          simp only [hr, bne_self_eq_false, Bool.and_false, Bool.false_eq_true, if_false]
          refine ⟨?_, hfin⟩
          rw [hv, hρ, add_zero, sgn_false, one_mul, floor_neg_nat]; simp
        · have hρ : 0 < ρ := lt_of_le_of_ne h0 (fun h => hr (hz.mp h.symm))
          obtain ⟨hv, hfin⟩ := ofNatSigned_toRat hf false hq
          have hb : (r != 0) = true := by simpa using hr
          simp only [hb, Bool.not_false, Bool.and_self, if_true]
          refine ⟨?_, hfin⟩
          rw [hv, sgn_false, one_mul, one_mul, floor_neg_nat_add hρ h1]; push_cast; ring
      · obtain ⟨hv, hfin⟩ := ofNatSigned_toRat hf true (show q < 2 ^ f.p by omega)
        simp only [Bool.not_true, Bool.false_and, Bool.false_eq_true, if_false]
        refine ⟨?_, hfin⟩
        rw [hv, sgn_true, neg_one_mul, neg_one_mul, neg_neg, floor_nat_add h0 h1]; simp

/-! #### trunc -/

theorem trunc_fin_nonneg (s : Bool) (m : Nat) (e : Int) (he : 0 ≤ e) :
    Fl.trunc f (fin s m e) = fin s m e := by
  simp only [Fl.trunc, ge_iff_le, if_pos he]

theorem trunc_fin_neg (s : Bool) (m : Nat) (e : Int) (he : e < 0) :
    Fl.trunc f (fin s m e) = ofNatSigned f s (m / 2 ^ (-e).toNat) := by
  have : ¬ e ≥ 0 := by omega
  simp only [Fl.trunc, truncMag, if_neg this]

/-- truncation toward zero of an exact rational, as in the oracle `stdRound 3` -/
def ratTruncQ (x : Rat) : Int := if x < 0 then -((-x).floor) else x.floor

/-- round half away from zero of an exact rational, as in the oracle `stdRound 2` -/
def ratRoundQ (x : Rat) : Int := if x < 0 then -((-x + 1 / 2).floor) else (x + 1 / 2).floor

theorem ratTruncQ_intCast (z : Int) : ratTruncQ (z : Rat) = z := by
  unfold ratTruncQ
  split
  · rw [neg_intCast_floor, neg_neg]
  · rw [Rat.floor_intCast]

theorem ratRoundQ_intCast (z : Int) : ratRoundQ (z : Rat) = z := by
  unfold ratRoundQ
  split
  · have : (-(z : Rat) + 1 / 2).floor = -z :=
      rat_floor_eq (by push_cast; linarith) (by push_cast; linarith)
    rw [this, neg_neg]
  · exact rat_floor_eq (by linarith) (by linarith)

/-- `trunc`/`round` specs on `sgn s · y`, `y ≥ 0` -/
theorem ratTruncQ_sgn (s : Bool) {y : Rat} (hy : 0 ≤ y) :
    ((ratTruncQ (sgn s * y) : Int) : Rat) = sgn s * ((y.floor : Int) : Rat) := by
  unfold ratTruncQ
  cases s
  · rw [sgn_false, one_mul, one_mul, if_neg (not_lt.mpr hy)]
  · rw [sgn_true, neg_one_mul, neg_one_mul]
    by_cases h : 0 < y
    · have hlt : -y < 0 := by linarith
      rw [if_pos hlt, neg_neg]; push_cast; ring
    · have h0 : y = 0 := le_antisymm (not_lt.mp h) hy
      subst h0
      have hf0 : (0 : Rat).floor = 0 := rat_floor_eq (by norm_num) (by norm_num)
      rw [neg_zero, if_neg (lt_irrefl _), hf0]; simp

theorem ratRoundQ_sgn (s : Bool) {y : Rat} (hy : 0 ≤ y) :
    ((ratRoundQ (sgn s * y) : Int) : Rat) = sgn s * (((y + 1 / 2).floor : Int) : Rat) := by
  unfold ratRoundQ
  cases s
  · rw [sgn_false, one_mul, one_mul, if_neg (not_lt.mpr hy)]
  · rw [sgn_true, neg_one_mul, neg_one_mul]
    by_cases h : 0 < y
    · have hlt : -y < 0 := by linarith
      rw [if_pos hlt, neg_neg]; push_cast; ring
    · have h0 : y = 0 := le_antisymm (not_lt.mp h) hy
      subst h0
      have : ((0 : Rat) + 1 / 2).floor = 0 := rat_floor_eq (by norm_num) (by norm_num)
      rw [neg_zero, if_neg (lt_irrefl _), this]; simp

/-- **`trunc` is truncation toward zero** on canonical finite values -/
theorem trunc_toRat (hf : f.WF) {x : Fl} (hc : Canonical f x) (hx : x.isFinite = true) :
    (Fl.trunc f x).toRat = ((ratTruncQ x.toRat : Int) : Rat) ∧ (Fl.trunc f x).isFinite = true := by
  cases x with
  | nan => simp [Fl.isFinite] at hx
  | inf s => simp [Fl.isFinite] at hx
  | fin s m e =>
    by_cases he : 0 ≤ e
    · rw [trunc_fin_nonneg s m e he, toRat_int_of_nonneg s m e he, ratTruncQ_intCast]
      exact ⟨rfl, rfl⟩
    · have he' : e < 0 := by omega
      have hm : m < 2 ^ f.p := canonical_lt hc
      obtain ⟨ρ, hval, h0, h1, -, -⟩ := toRat_decomp s m e he'
      have hq := quot_succ_lt hf hm (-e).toNat (by omega)
      rw [trunc_fin_neg s m e he', hval]
      generalize m / 2 ^ (-e).toNat = q at *
      obtain ⟨hv, hfin⟩ := ofNatSigned_toRat hf s (show q < 2 ^ f.p by omega)
      refine ⟨?_, hfin⟩
      have hy : 0 ≤ (q : Rat) + ρ := by positivity
      rw [hv, ratTruncQ_sgn s hy, floor_nat_add h0 h1]; simp

/-! #### round (half away from zero) -/

theorem round_fin_nonneg (s : Bool) (m : Nat) (e : Int) (he : 0 ≤ e) :
    Fl.round f (fin s m e) = fin s m e := by
  simp only [Fl.round, ge_iff_le, if_pos he]

theorem round_fin_neg (s : Bool) (m : Nat) (e : Int) (he : e < 0) :
    Fl.round f (fin s m e) =
      if 2 * (m % 2 ^ (-e).toNat) ≥ 2 ^ (-e).toNat then ofNatSigned f s (m / 2 ^ (-e).toNat + 1)
      else ofNatSigned f s (m / 2 ^ (-e).toNat) := by
  have : ¬ e ≥ 0 := by omega
  simp only [Fl.round, if_neg this]

/-- **`round` is rounding half away from zero** on canonical finite values -/
theorem round_toRat (hf : f.WF) {x : Fl} (hc : Canonical f x) (hx : x.isFinite = true) :
    (Fl.round f x).toRat = ((ratRoundQ x.toRat : Int) : Rat) ∧ (Fl.round f x).isFinite = true := by
  cases x with
  | nan => simp [Fl.isFinite] at hx
  | inf s => simp [Fl.isFinite] at hx
  | fin s m e =>
    by_cases he : 0 ≤ e
    · rw [round_fin_nonneg s m e he, toRat_int_of_nonneg s m e he, ratRoundQ_intCast]
      exact ⟨rfl, rfl⟩
    · have he' : e < 0 := by omega
      have hm : m < 2 ^ f.p := canonical_lt hc
      obtain ⟨ρ, hval, h0, h1, -, hhalf⟩ := toRat_decomp s m e he'
      have hq := quot_succ_lt hf hm (-e).toNat (by omega)
      rw [round_fin_neg s m e he', hval]
      generalize m / 2 ^ (-e).toNat = q at *
      generalize m % 2 ^ (-e).toNat = r at *
      have hy : 0 ≤ (q : Rat) + ρ := by positivity
      rw [ratRoundQ_sgn s hy]
      by_cases hh : 2 * r ≥ 2 ^ (-e).toNat
      · obtain ⟨hv, hfin⟩ := ofNatSigned_toRat hf s hq
        rw [if_pos hh]
        refine ⟨?_, hfin⟩
        rw [hv, floor_nat_add_half_hi (hhalf.mpr hh) h1]; push_cast; ring
      · obtain ⟨hv, hfin⟩ := ofNatSigned_toRat hf s (show q < 2 ^ f.p by omega)
        rw [if_neg hh]
        refine ⟨?_, hfin⟩
        have hlo : ρ < 1 / 2 := by
          by_contra hcon
          exact hh (hhalf.mp (not_lt.mp hcon))
        rw [hv, floor_nat_add_half_lo h0 hlo]; simp

theorem ofNatSigned_ok (hf : f.WF) (s : Bool) {n : Nat} (hn : n < 2 ^ f.p) :
    Ok f (ofNatSigned f s n) := by
  have hfin := (ofNatSigned_toRat hf s hn).2
  unfold ofNatSigned at hfin ⊢
  split
  · exact ok_zero f s
  · next h => rw [if_neg h] at hfin; exact roundDy_ok f _ _ _ hfin

theorem floor_ok (hf : f.WF) {x : Fl} (hc : Canonical f x) (hx : x.isFinite = true) :
    Ok f (Fl.floor f x) := by
  cases x with
  | nan => simp [Fl.isFinite] at hx
  | inf s => simp [Fl.isFinite] at hx
  | fin s m e =>
    by_cases he : 0 ≤ e
    · rw [floor_fin_nonneg s m e he]; exact ok_of_canonical hc hx
    · have he' : e < 0 := by omega
      have hq := quot_succ_lt hf (canonical_lt hc) (-e).toNat (by omega)
      rw [floor_fin_neg s m e he']
      split
      · exact ofNatSigned_ok hf _ hq
      · exact ofNatSigned_ok hf _ (by omega)

theorem ceil_ok (hf : f.WF) {x : Fl} (hc : Canonical f x) (hx : x.isFinite = true) :
    Ok f (Fl.ceil f x) := by
  cases x with
  | nan => simp [Fl.isFinite] at hx
  | inf s => simp [Fl.isFinite] at hx
  | fin s m e =>
    by_cases he : 0 ≤ e
    · rw [ceil_fin_nonneg s m e he]; exact ok_of_canonical hc hx
    · have he' : e < 0 := by omega
      have hq := quot_succ_lt hf (canonical_lt hc) (-e).toNat (by omega)
      rw [ceil_fin_neg s m e he']
      split
      · exact ofNatSigned_ok hf _ hq
      · exact ofNatSigned_ok hf _ (by omega)

theorem trunc_ok (hf : f.WF) {x : Fl} (hc : Canonical f x) (hx : x.isFinite = true) :
    Ok f (Fl.trunc f x) := by
  cases x with
  | nan => simp [Fl.isFinite] at hx
  | inf s => simp [Fl.isFinite] at hx
  | fin s m e =>
    by_cases he : 0 ≤ e
    · rw [trunc_fin_nonneg s m e he]; exact ok_of_canonical hc hx
    · have he' : e < 0 := by omega
      have hq := quot_succ_lt hf (canonical_lt hc) (-e).toNat (by omega)
      rw [trunc_fin_neg s m e he']
      exact ofNatSigned_ok hf _ (by omega)

theorem round_ok (hf : f.WF) {x : Fl} (hc : Canonical f x) (hx : x.isFinite = true) :
    Ok f (Fl.round f x) := by
  cases x with
  | nan => simp [Fl.isFinite] at hx
  | inf s => simp [Fl.isFinite] at hx
  | fin s m e =>
    by_cases he : 0 ≤ e
    · rw [round_fin_nonneg s m e he]; exact ok_of_canonical hc hx
    · have he' : e < 0 := by omega
      have hq := quot_succ_lt hf (canonical_lt hc) (-e).toNat (by omega)
      rw [round_fin_neg s m e he']
      split
      · exact ofNatSigned_ok hf _ hq
      · exact ofNatSigned_ok hf _ (by omega)

/-! ### 5c. (C16) the stored result of `q.floor::<N>()` … against the *mathematical* rounding of the
value `g = q.get::<N>()` the implementation reads in the unit -/

variable {coef cA cS fac v : Fl}

theorem floor_in_unit_approx (hf : f.WF)
    (hg : Fl.isFinite (fromBase (flS f) coef cS fac v) = true)
    (H : ToBaseOk f coef cA fac (Fl.floor f (fromBase (flS f) coef cS fac v))) :
    Approx (uro f) 3 (Fl.toRat (roundInUnit (flS f) (Fl.floor f) coef cA cS fac v))
      ((((Fl.toRat (fromBase (flS f) coef cS fac v)).floor : Int) + cA.toRat) * coef.toRat / fac.toRat) := by
  rw [← (floor_toRat hf (Fl.fromBase_canonical hf v coef cS fac) hg).1]
  exact (roundInUnit_float_approx hf.hp _ H).1

theorem ceil_in_unit_approx (hf : f.WF)
    (hg : Fl.isFinite (fromBase (flS f) coef cS fac v) = true)
    (H : ToBaseOk f coef cA fac (Fl.ceil f (fromBase (flS f) coef cS fac v))) :
    Approx (uro f) 3 (Fl.toRat (roundInUnit (flS f) (Fl.ceil f) coef cA cS fac v))
      ((((-((-(Fl.toRat (fromBase (flS f) coef cS fac v))).floor) : Int) : Rat) + cA.toRat)
        * coef.toRat / fac.toRat) := by
  rw [← (ceil_toRat hf (Fl.fromBase_canonical hf v coef cS fac) hg).1]
  exact (roundInUnit_float_approx hf.hp _ H).1

theorem round_in_unit_approx (hf : f.WF)
    (hg : Fl.isFinite (fromBase (flS f) coef cS fac v) = true)
    (H : ToBaseOk f coef cA fac (Fl.round f (fromBase (flS f) coef cS fac v))) :
    Approx (uro f) 3 (Fl.toRat (roundInUnit (flS f) (Fl.round f) coef cA cS fac v))
      ((((ratRoundQ (Fl.toRat (fromBase (flS f) coef cS fac v)) : Int) : Rat) + cA.toRat)
        * coef.toRat / fac.toRat) := by
  rw [← (round_toRat hf (Fl.fromBase_canonical hf v coef cS fac) hg).1]
  exact (roundInUnit_float_approx hf.hp _ H).1

theorem trunc_in_unit_approx (hf : f.WF)
    (hg : Fl.isFinite (fromBase (flS f) coef cS fac v) = true)
    (H : ToBaseOk f coef cA fac (Fl.trunc f (fromBase (flS f) coef cS fac v))) :
    Approx (uro f) 3 (Fl.toRat (roundInUnit (flS f) (Fl.trunc f) coef cA cS fac v))
      ((((ratTruncQ (Fl.toRat (fromBase (flS f) coef cS fac v)) : Int) : Rat) + cA.toRat)
        * coef.toRat / fac.toRat) := by
  rw [← (trunc_toRat hf (Fl.fromBase_canonical hf v coef cS fac) hg).1]
  exact (roundInUnit_float_approx hf.hp _ H).1


end toInt

/-! ### 6. (C09) temperature point + temperature interval on floats -/

/-- error of one rounding of a sum of two approximated terms -/
theorem abs_sum_round_le {u ρ T D tb db δ : Rat} (hδ : |δ| ≤ u)
    (hT : |tb - T| ≤ ρ * |T|) (hD : |db - D| ≤ ρ * |D|) :
    |(tb + db) * (1 + δ) - (T + D)| ≤ (1 + u) * ρ * (|T| + |D|) + u * |T + D| := by
  have h1 : |1 + δ| ≤ 1 + u := by
    calc |1 + δ| ≤ |(1 : Rat)| + |δ| := abs_add_le _ _
      _ ≤ 1 + u := by rw [abs_one]; linarith
  have h2 : |(tb - T) + (db - D)| ≤ ρ * |T| + ρ * |D| :=
    le_trans (abs_add_le _ _) (add_le_add hT hD)
  have h3 : |((tb - T) + (db - D)) * (1 + δ)| ≤ (ρ * |T| + ρ * |D|) * (1 + u) := by
    rw [abs_mul]
    exact mul_le_mul h2 h1 (abs_nonneg _) (le_trans (abs_nonneg _) h2)
  have h4 : |δ * (T + D)| ≤ u * |T + D| := by
    rw [abs_mul]; exact mul_le_mul_of_nonneg_right hδ (abs_nonneg _)
  have e : (tb + db) * (1 + δ) - (T + D) = ((tb - T) + (db - D)) * (1 + δ) + δ * (T + D) := by ring
  rw [e]
  calc |((tb - T) + (db - D)) * (1 + δ) + δ * (T + D)|
      ≤ |((tb - T) + (db - D)) * (1 + δ)| + |δ * (T + D)| := abs_add_le _ _
    _ ≤ (ρ * |T| + ρ * |D|) * (1 + u) + u * |T + D| := add_le_add h3 h4
    _ = _ := by ring

/-- the arithmetic of `from_base (to_base t + to_base d)`; `κ = fac / coef`, `T·κ = t + c`, `D·κ = d` -/
theorem point_interval_arith {u ρ2 ρ3 t d c T D κ s res : Rat}
    (hu0 : 0 ≤ u) (hρ2 : 0 ≤ ρ2)
    (hTκ : T * κ = t + c) (hDκ : D * κ = d)
    (hs : |s - (T + D)| ≤ (1 + u) * ρ3 * (|T| + |D|) + u * |T + D|)
    (hres : |res - (s * κ - c)| ≤ ρ2 * |s * κ| * (1 + u) + u * |s * κ - c|) :
    |res - (t + d)| ≤
      ((1 + u) * ρ3 * (|t + c| + |d|) + u * |t + c + d|) * (1 + ρ2 * (1 + u) + u)
        + ρ2 * (1 + u) * |t + c + d| + u * |t + d| := by
  set E1 := (1 + u) * ρ3 * (|t + c| + |d|) + u * |t + c + d| with hE1
  -- step 2: the scaled sum against `t + c + d`
  have hy : |s * κ - (t + c + d)| ≤ E1 := by
    have e : s * κ - (t + c + d) = (s - (T + D)) * κ := by rw [← hTκ, ← hDκ]; ring
    have eT : |t + c| = |T| * |κ| := by rw [← hTκ, abs_mul]
    have eD : |d| = |D| * |κ| := by rw [← hDκ, abs_mul]
    have eS : |t + c + d| = |T + D| * |κ| := by rw [← hTκ, ← hDκ, ← abs_mul]; congr 1; ring
    rw [e, abs_mul, hE1, eT, eD, eS]
    calc |s - (T + D)| * |κ| ≤ ((1 + u) * ρ3 * (|T| + |D|) + u * |T + D|) * |κ| :=
          mul_le_mul_of_nonneg_right hs (abs_nonneg _)
      _ = _ := by ring
  -- step 3
  have hy1 : |s * κ| ≤ |t + c + d| + E1 := by
    have : s * κ = (s * κ - (t + c + d)) + (t + c + d) := by ring
    calc |s * κ| = |(s * κ - (t + c + d)) + (t + c + d)| := by rw [← this]
      _ ≤ |s * κ - (t + c + d)| + |t + c + d| := abs_add_le _ _
      _ ≤ _ := by linarith
  have hy2 : |s * κ - c| ≤ |t + d| + E1 := by
    have : s * κ - c = (s * κ - (t + c + d)) + (t + d) := by ring
    calc |s * κ - c| = |(s * κ - (t + c + d)) + (t + d)| := by rw [← this]
      _ ≤ |s * κ - (t + c + d)| + |t + d| := abs_add_le _ _
      _ ≤ _ := by linarith
  -- step 4
  have h4 : |res - (t + d)| ≤ |res - (s * κ - c)| + |s * κ - (t + c + d)| := by
    have : res - (t + d) = (res - (s * κ - c)) + (s * κ - (t + c + d)) := by ring
    rw [this]; exact abs_add_le _ _
  have hρu : 0 ≤ ρ2 * (1 + u) := mul_nonneg hρ2 (by linarith)
  have h5 : ρ2 * |s * κ| * (1 + u) ≤ ρ2 * (1 + u) * (|t + c + d| + E1) := by
    calc ρ2 * |s * κ| * (1 + u) = ρ2 * (1 + u) * |s * κ| := by ring
      _ ≤ _ := mul_le_mul_of_nonneg_left hy1 hρu
  have h6 : u * |s * κ - c| ≤ u * (|t + d| + E1) := mul_le_mul_of_nonneg_left hy2 hu0
  calc |res - (t + d)| ≤ ρ2 * (1 + u) * (|t + c + d| + E1) + u * (|t + d| + E1) + E1 := by linarith
    _ = _ := by ring

variable {f : Fmt}

/-- `ρ_k = (1-u)^(-k) - 1 ≥ 0` -/
theorem rho_nonneg {u : Rat} (hu0 : 0 ≤ u) (hu1 : u < 1) (k : ℕ) : 0 ≤ (1 - u) ^ (-(k : ℤ)) - 1 := by
  have hp : 0 < 1 - u := by linarith
  have hk : 0 < (1 - u) ^ k := pow_pos hp k
  have hk1 : (1 - u) ^ k ≤ 1 := pow_le_one₀ hp.le (by linarith)
  rw [zpow_neg, zpow_natCast, sub_nonneg]
  exact (one_le_inv₀ hk).mpr hk1

/-- **(C09) thermodynamic-temperature point + temperature interval on floats.**
    `t`, `d` are given in a scale with coefficient `coef`; the point has offset `c` (`cA` on the way in,
    `cS` on the way out, equal values), the interval none (`-0.0`).  With `ρ_k = (1-u)^(-k) - 1`,
    `E = (1+u)·ρ₃·(|t+c| + |d|) + u·|t+c+d|`:
    `|result − (t+d)| ≤ E·(1 + ρ₂(1+u) + u) + ρ₂(1+u)·|t+c+d| + u·|t+d|`. -/
theorem point_plus_interval_float (hp : 1 ≤ f.p) {coef cA cS fac t d : Fl}
    (hcoef : coef.toRat ≠ 0) (hfac : fac.toRat ≠ 0) (hcc : cA.toRat = cS.toRat)
    (Ht : ToBaseOk f coef cA fac t) (Hd : ToBaseOk f coef (flS f).constAdd fac d)
    (hsum : (Fl.add f (toBase (flS f) coef cA fac t)
      (toBase (flS f) coef (flS f).constAdd fac d)).isFinite = true)
    (Hs : FromBaseOk f coef fac (Fl.add f (toBase (flS f) coef cA fac t)
      (toBase (flS f) coef (flS f).constAdd fac d)))
    (hcS : Ok f cS)
    (hfin : Fl.isFinite (fromBase (flS f) coef cS fac (Fl.add f (toBase (flS f) coef cA fac t)
      (toBase (flS f) coef (flS f).constAdd fac d))) = true) :
    |Fl.toRat (fromBase (flS f) coef cS fac (Fl.add f (toBase (flS f) coef cA fac t)
        (toBase (flS f) coef (flS f).constAdd fac d))) - (t.toRat + d.toRat)| ≤
      ((1 + uro f) * ((1 - uro f) ^ (-(3 : ℤ)) - 1) * (|t.toRat + cS.toRat| + |d.toRat|)
          + uro f * |t.toRat + cS.toRat + d.toRat|)
        * (1 + ((1 - uro f) ^ (-(2 : ℤ)) - 1) * (1 + uro f) + uro f)
      + ((1 - uro f) ^ (-(2 : ℤ)) - 1) * (1 + uro f) * |t.toRat + cS.toRat + d.toRat|
      + uro f * |t.toRat + d.toRat| := by
  have hu0 := uro_nonneg f
  have hu1 := uro_lt_one f hp
  obtain ⟨hT, hTok⟩ := toBase_flS_approx hp Ht
  obtain ⟨hD, hDok⟩ := toBase_flS_approx hp Hd
  have hA0 : Fl.toRat ((flS f).constAdd) = 0 := toRat_zero f true
  rw [hA0, add_zero] at hD
  rw [hcc] at hT
  obtain ⟨⟨δ, hδ, hδu⟩, -⟩ := add_rel_ok hp hTok hDok hsum
  have hT' := Approx.abs_sub_le' hu0 hu1 hT
  have hD' := Approx.abs_sub_le' hu0 hu1 hD
  have hs := abs_sum_round_le hδu hT' hD'
  rw [← hδ] at hs
  have hres := fromBase_flS_abs_le hp Hs hcS hfin
  rw [mul_div_assoc] at hres
  have hTκ : (t.toRat + cS.toRat) * coef.toRat / fac.toRat * (fac.toRat / coef.toRat) =
      t.toRat + cS.toRat := by field_simp
  have hDκ : d.toRat * coef.toRat / fac.toRat * (fac.toRat / coef.toRat) = d.toRat := by field_simp
  have hρ2 := rho_nonneg hu0 hu1 2
  exact point_interval_arith hu0 hρ2 hTκ hDκ hs hres


/-! ### 7. linearised corollaries in the form used by the executable oracles (`Uom.oracleBinFl`) -/

theorem uro_le_sixteenth {f : Fmt} (h4 : 4 ≤ f.p) : uro f ≤ 1 / 16 := by
  unfold uro
  have : (16 : Rat) ≤ 2 ^ f.p := by
    calc (16 : Rat) = 2 ^ 4 := by norm_num
      _ ≤ 2 ^ f.p := pow_le_pow_right₀ (by norm_num) h4
  exact one_div_le_one_div_of_le (by norm_num) this

/-- `ρ₂ = (1-u)^(-2) - 1 ≤ 3u` for `u ≤ 1/5` -/
theorem rho2_le {u : Rat} (hu0 : 0 ≤ u) (hu : u ≤ 1 / 5) : (1 - u) ^ (-(2 : ℤ)) - 1 ≤ 3 * u := by
  have hq : 0 < (1 - u) ^ 2 := pow_pos (by linarith) 2
  have key : 1 - (1 - u) ^ 2 ≤ 3 * u * (1 - u) ^ 2 := by
    nlinarith [mul_nonneg hu0 (sub_nonneg.mpr hu), pow_nonneg hu0 3, mul_nonneg hu0 hu0]
  have e : (1 - u) ^ (-(2 : ℤ)) - 1 = (1 - (1 - u) ^ 2) / (1 - u) ^ 2 := by
    rw [zpow_neg, zpow_ofNat, inv_eq_one_div, div_sub_one hq.ne']
  rw [e, div_le_iff₀ hq]; exact key

/-- `ρ₂·(1+u) ≤ 3u` for `u ≤ 1/7` -/
theorem rho2_mul_le {u : Rat} (hu0 : 0 ≤ u) (hu : u ≤ 1 / 7) :
    ((1 - u) ^ (-(2 : ℤ)) - 1) * (1 + u) ≤ 3 * u := by
  have hq : 0 < (1 - u) ^ 2 := pow_pos (by linarith) 2
  have key : (1 - (1 - u) ^ 2) * (1 + u) ≤ 3 * u * (1 - u) ^ 2 := by
    nlinarith [mul_nonneg hu0 (sub_nonneg.mpr hu), pow_nonneg hu0 3, mul_nonneg hu0 hu0]
  have e : (1 - u) ^ (-(2 : ℤ)) - 1 = (1 - (1 - u) ^ 2) / (1 - u) ^ 2 := by
    rw [zpow_neg, zpow_ofNat, inv_eq_one_div, div_sub_one hq.ne']
  rw [e, div_mul_eq_mul_div, div_le_iff₀ hq]; exact key

section oracleForm
variable {f : Fmt} {l r a b : Fl}

/-- `change_base` alone: within `3u` (the C15 oracle's tolerance) -/
theorem changeBase_flS_abs_le (h4 : 4 ≤ f.p) (H : ChangeBaseOk f l r b) :
    |Fl.toRat (changeBase (flS f) l r b) - b.toRat * r.toRat / l.toRat| ≤
      3 * uro f * |b.toRat * r.toRat / l.toRat| := by
  have hp : 1 ≤ f.p := by omega
  have hu0 := uro_nonneg f
  have hu := uro_le_sixteenth h4
  have h := Approx.abs_sub_le' hu0 (uro_lt_one f hp) (changeBase_flS_approx hp H)
  have h3 := rho2_le hu0 (by linarith : uro f ≤ 1 / 5)
  calc _ ≤ ((1 - uro f) ^ (-((2 : ℕ) : ℤ)) - 1) * |b.toRat * r.toRat / l.toRat| := h
    _ ≤ 3 * uro f * |b.toRat * r.toRat / l.toRat| :=
        mul_le_mul_of_nonneg_right (by simpa using h3) (abs_nonneg _)

/-- `a * change_base(b)` within `4u·|A·B|` -/
theorem mul_mixed_abs_le (h4 : 4 ≤ f.p) (H : ChangeBaseOk f l r b) (ha : a.isFinite = true)
    (hN : nmin f ≤ |a.toRat * Fl.toRat (changeBase (flS f) l r b)|)
    (hfin : (Fl.mul f a (changeBase (flS f) l r b)).isFinite = true) :
    |(Fl.mul f a (changeBase (flS f) l r b)).toRat - a.toRat * (b.toRat * r.toRat / l.toRat)| ≤
      4 * uro f * |a.toRat * (b.toRat * r.toRat / l.toRat)| := by
  have hp : 1 ≤ f.p := by omega
  have hu0 := uro_nonneg f
  have hu := uro_le_sixteenth h4
  have h := Approx.abs_sub_le_succ hu0 (uro_lt_one f hp)
    (by push_cast; linarith) (mul_mixed_approx hp H ha hN hfin).1
  calc _ ≤ (((3 : ℕ) : Rat) + 1) * uro f * |a.toRat * (b.toRat * r.toRat / l.toRat)| := h
    _ = _ := by push_cast; ring

/-- `a / change_base(b)` within `4u·|A/B|` -/
theorem div_mixed_abs_le (h4 : 4 ≤ f.p) (H : ChangeBaseOk f l r b) (ha : a.isFinite = true)
    (hN : nmin f ≤ |a.toRat / Fl.toRat (changeBase (flS f) l r b)|)
    (hfin : (Fl.div f a (changeBase (flS f) l r b)).isFinite = true) :
    |(Fl.div f a (changeBase (flS f) l r b)).toRat - a.toRat / (b.toRat * r.toRat / l.toRat)| ≤
      4 * uro f * |a.toRat / (b.toRat * r.toRat / l.toRat)| := by
  have hp : 1 ≤ f.p := by omega
  have hu0 := uro_nonneg f
  have hu := uro_le_sixteenth h4
  have h := Approx.abs_sub_le_succ hu0 (uro_lt_one f hp)
    (by push_cast; linarith) (div_mixed_approx hp H ha hN hfin).1
  calc _ ≤ (((3 : ℕ) : Rat) + 1) * uro f * |a.toRat / (b.toRat * r.toRat / l.toRat)| := h
    _ = _ := by push_cast; ring

/-- `a + change_base(b)` within `u·(3|B| + |A+B|)` (the oracle allows `u·(3|B| + 2|A+B|)`) -/
theorem add_mixed_abs_le (h4 : 4 ≤ f.p) (H : ChangeBaseOk f l r b) (ha : Ok f a)
    (hfin : (Fl.add f a (changeBase (flS f) l r b)).isFinite = true) :
    |(Fl.add f a (changeBase (flS f) l r b)).toRat - (a.toRat + b.toRat * r.toRat / l.toRat)| ≤
      uro f * (3 * |b.toRat * r.toRat / l.toRat| + |a.toRat + b.toRat * r.toRat / l.toRat|) := by
  have hp : 1 ≤ f.p := by omega
  have hu0 := uro_nonneg f
  have hu := uro_le_sixteenth h4
  have h := add_mixed_abs hp H ha hfin
  have h3 := rho2_mul_le hu0 (by linarith : uro f ≤ 1 / 7)
  have hB : ((1 - uro f) ^ (-(2 : ℤ)) - 1) * |b.toRat * r.toRat / l.toRat| * (1 + uro f) ≤
      3 * uro f * |b.toRat * r.toRat / l.toRat| := by
    calc _ = ((1 - uro f) ^ (-(2 : ℤ)) - 1) * (1 + uro f) * |b.toRat * r.toRat / l.toRat| := by ring
      _ ≤ _ := mul_le_mul_of_nonneg_right h3 (abs_nonneg _)
  calc _ ≤ _ := h
    _ ≤ 3 * uro f * |b.toRat * r.toRat / l.toRat| + uro f * |a.toRat + b.toRat * r.toRat / l.toRat| := by
        linarith
    _ = _ := by ring

theorem sub_mixed_abs_le (h4 : 4 ≤ f.p) (H : ChangeBaseOk f l r b) (ha : Ok f a)
    (hfin : (Fl.sub f a (changeBase (flS f) l r b)).isFinite = true) :
    |(Fl.sub f a (changeBase (flS f) l r b)).toRat - (a.toRat - b.toRat * r.toRat / l.toRat)| ≤
      uro f * (3 * |b.toRat * r.toRat / l.toRat| + |a.toRat - b.toRat * r.toRat / l.toRat|) := by
  have hp : 1 ≤ f.p := by omega
  have hu0 := uro_nonneg f
  have hu := uro_le_sixteenth h4
  have h := sub_mixed_abs hp H ha hfin
  have h3 := rho2_mul_le hu0 (by linarith : uro f ≤ 1 / 7)
  have hB : ((1 - uro f) ^ (-(2 : ℤ)) - 1) * |b.toRat * r.toRat / l.toRat| * (1 + uro f) ≤
      3 * uro f * |b.toRat * r.toRat / l.toRat| := by
    calc _ = ((1 - uro f) ^ (-(2 : ℤ)) - 1) * (1 + uro f) * |b.toRat * r.toRat / l.toRat| := by ring
      _ ≤ _ := mul_le_mul_of_nonneg_right h3 (abs_nonneg _)
  calc _ ≤ _ := h
    _ ≤ 3 * uro f * |b.toRat * r.toRat / l.toRat| + uro f * |a.toRat - b.toRat * r.toRat / l.toRat| := by
        linarith
    _ = _ := by ring

/-- **mixed-base comparison, oracle form**: whenever the physical magnitudes differ by more than
    `4u·max(|A|,|B|)` (in fact `3u·|B|` suffices), every float comparison of `a` with
    `change_base(b)` (`==`, `<`, `<=`, `>`, `>=`, `partial_cmp`: all are defined from `Fl.cmp`)
    is the exact comparison of `A` with `B` -/
theorem cmp_mixed_sound' (h4 : 4 ≤ f.p) (H : ChangeBaseOk f l r b) (ha : a.isFinite = true)
    (hgap : 3 * uro f * |b.toRat * r.toRat / l.toRat| < |a.toRat - b.toRat * r.toRat / l.toRat|) :
    Fl.cmp a (changeBase (flS f) l r b) =
      some (if a.toRat < b.toRat * r.toRat / l.toRat then -1
        else if a.toRat = b.toRat * r.toRat / l.toRat then 0 else 1) := by
  have hp : 1 ≤ f.p := by omega
  rw [cmp_toRat ha (changeBase_flS_isFinite hp H)]
  have he := changeBase_flS_abs_le h4 H
  set A := a.toRat
  set B := b.toRat * r.toRat / l.toRat
  set C := Fl.toRat (changeBase (flS f) l r b)
  have hlt : |C - B| < |A - B| := lt_of_le_of_lt he hgap
  have hC := abs_lt.mp (lt_of_le_of_lt (le_refl _) hlt)
  rcases lt_trichotomy A B with h | h | h
  · have h1 : |A - B| = B - A := by rw [abs_of_neg (by linarith)]; ring
    have h2 : A < C := by linarith [hC.1]
    simp only [h, h2, if_true]
  · exfalso
    rw [h, sub_self, abs_zero] at hlt
    exact absurd hlt (not_lt.mpr (abs_nonneg _))
  · have h1 : |A - B| = A - B := abs_of_pos (by linarith)
    have h2 : C < A := by linarith [hC.2]
    simp only [h.not_gt, h2.not_gt, h.ne', h2.ne', if_false]

theorem cmp_mixed_sound (h4 : 4 ≤ f.p) (H : ChangeBaseOk f l r b) (ha : a.isFinite = true)
    (hgap : 4 * uro f * max |a.toRat| |b.toRat * r.toRat / l.toRat| <
      |a.toRat - b.toRat * r.toRat / l.toRat|) :
    Fl.cmp a (changeBase (flS f) l r b) =
      some (if a.toRat < b.toRat * r.toRat / l.toRat then -1
        else if a.toRat = b.toRat * r.toRat / l.toRat then 0 else 1) := by
  refine cmp_mixed_sound' h4 H ha (lt_of_le_of_lt ?_ hgap)
  have hu0 := uro_nonneg f
  have hB0 := abs_nonneg (b.toRat * r.toRat / l.toRat)
  have hmax : |b.toRat * r.toRat / l.toRat| ≤ max |a.toRat| |b.toRat * r.toRat / l.toRat| :=
    le_max_right _ _
  calc 3 * uro f * |b.toRat * r.toRat / l.toRat| ≤ 4 * uro f * |b.toRat * r.toRat / l.toRat| := by
        nlinarith [mul_nonneg hu0 hB0]
    _ ≤ _ := mul_le_mul_of_nonneg_left hmax (by linarith)

end oracleForm

/-- three roundings cost at most `4u` -/
theorem approx3_abs_le {f : Fmt} (h4 : 4 ≤ f.p) {xh x : Rat} (h : Approx (uro f) 3 xh x) :
    |xh - x| ≤ 4 * uro f * |x| := by
  have hp : 1 ≤ f.p := by omega
  have hu := uro_le_sixteenth h4
  have h' := Approx.abs_sub_le_succ (uro_nonneg f) (uro_lt_one f hp) (by push_cast; linarith) h
  calc _ ≤ (((3 : ℕ) : Rat) + 1) * uro f * |x| := h'
    _ = _ := by push_cast; ring

section c16
variable {f : Fmt} {coef cA cS fac v : Fl}

/-- C16 in the form of `Uom.oracleStdRounding` (`4u` of the construction of the standard rounding) -/
theorem floor_in_unit_abs_le (hf : f.WF) (h4 : 4 ≤ f.p)
    (hg : Fl.isFinite (fromBase (flS f) coef cS fac v) = true)
    (H : ToBaseOk f coef cA fac (Fl.floor f (fromBase (flS f) coef cS fac v))) :
    |Fl.toRat (roundInUnit (flS f) (Fl.floor f) coef cA cS fac v) -
        (((Fl.toRat (fromBase (flS f) coef cS fac v)).floor : Int) + cA.toRat) * coef.toRat / fac.toRat| ≤
      4 * uro f *
        |(((Fl.toRat (fromBase (flS f) coef cS fac v)).floor : Int) + cA.toRat) * coef.toRat / fac.toRat| :=
  approx3_abs_le h4 (floor_in_unit_approx hf hg H)

theorem ceil_in_unit_abs_le (hf : f.WF) (h4 : 4 ≤ f.p)
    (hg : Fl.isFinite (fromBase (flS f) coef cS fac v) = true)
    (H : ToBaseOk f coef cA fac (Fl.ceil f (fromBase (flS f) coef cS fac v))) :
    |Fl.toRat (roundInUnit (flS f) (Fl.ceil f) coef cA cS fac v) -
        (((-((-(Fl.toRat (fromBase (flS f) coef cS fac v))).floor) : Int) : Rat) + cA.toRat)
          * coef.toRat / fac.toRat| ≤
      4 * uro f *
        |(((-((-(Fl.toRat (fromBase (flS f) coef cS fac v))).floor) : Int) : Rat) + cA.toRat)
          * coef.toRat / fac.toRat| :=
  approx3_abs_le h4 (ceil_in_unit_approx hf hg H)

theorem round_in_unit_abs_le (hf : f.WF) (h4 : 4 ≤ f.p)
    (hg : Fl.isFinite (fromBase (flS f) coef cS fac v) = true)
    (H : ToBaseOk f coef cA fac (Fl.round f (fromBase (flS f) coef cS fac v))) :
    |Fl.toRat (roundInUnit (flS f) (Fl.round f) coef cA cS fac v) -
        (((ratRoundQ (Fl.toRat (fromBase (flS f) coef cS fac v)) : Int) : Rat) + cA.toRat)
          * coef.toRat / fac.toRat| ≤
      4 * uro f *
        |(((ratRoundQ (Fl.toRat (fromBase (flS f) coef cS fac v)) : Int) : Rat) + cA.toRat)
          * coef.toRat / fac.toRat| :=
  approx3_abs_le h4 (round_in_unit_approx hf hg H)

theorem trunc_in_unit_abs_le (hf : f.WF) (h4 : 4 ≤ f.p)
    (hg : Fl.isFinite (fromBase (flS f) coef cS fac v) = true)
    (H : ToBaseOk f coef cA fac (Fl.trunc f (fromBase (flS f) coef cS fac v))) :
    |Fl.toRat (roundInUnit (flS f) (Fl.trunc f) coef cA cS fac v) -
        (((ratTruncQ (Fl.toRat (fromBase (flS f) coef cS fac v)) : Int) : Rat) + cA.toRat)
          * coef.toRat / fac.toRat| ≤
      4 * uro f *
        |(((ratTruncQ (Fl.toRat (fromBase (flS f) coef cS fac v)) : Int) : Rat) + cA.toRat)
          * coef.toRat / fac.toRat| :=
  approx3_abs_le h4 (trunc_in_unit_approx hf hg H)

end c16

section c09
variable {f : Fmt}

/-- **(C09) point − interval on floats**: same bound with `t − d` -/
theorem point_minus_interval_float (hp : 1 ≤ f.p) {coef cA cS fac t d : Fl}
    (hcoef : coef.toRat ≠ 0) (hfac : fac.toRat ≠ 0) (hcc : cA.toRat = cS.toRat)
    (Ht : ToBaseOk f coef cA fac t) (Hd : ToBaseOk f coef (flS f).constAdd fac d)
    (hsum : (Fl.sub f (toBase (flS f) coef cA fac t)
      (toBase (flS f) coef (flS f).constAdd fac d)).isFinite = true)
    (Hs : FromBaseOk f coef fac (Fl.sub f (toBase (flS f) coef cA fac t)
      (toBase (flS f) coef (flS f).constAdd fac d)))
    (hcS : Ok f cS)
    (hfin : Fl.isFinite (fromBase (flS f) coef cS fac (Fl.sub f (toBase (flS f) coef cA fac t)
      (toBase (flS f) coef (flS f).constAdd fac d))) = true) :
    |Fl.toRat (fromBase (flS f) coef cS fac (Fl.sub f (toBase (flS f) coef cA fac t)
        (toBase (flS f) coef (flS f).constAdd fac d))) - (t.toRat - d.toRat)| ≤
      ((1 + uro f) * ((1 - uro f) ^ (-(3 : ℤ)) - 1) * (|t.toRat + cS.toRat| + |d.toRat|)
          + uro f * |t.toRat + cS.toRat - d.toRat|)
        * (1 + ((1 - uro f) ^ (-(2 : ℤ)) - 1) * (1 + uro f) + uro f)
      + ((1 - uro f) ^ (-(2 : ℤ)) - 1) * (1 + uro f) * |t.toRat + cS.toRat - d.toRat|
      + uro f * |t.toRat - d.toRat| := by
  have hu0 := uro_nonneg f
  have hu1 := uro_lt_one f hp
  obtain ⟨hT, hTok⟩ := toBase_flS_approx hp Ht
  obtain ⟨hD, hDok⟩ := toBase_flS_approx hp Hd
  have hA0 : Fl.toRat ((flS f).constAdd) = 0 := toRat_zero f true
  rw [hA0, add_zero] at hD
  rw [hcc] at hT
  obtain ⟨⟨δ, hδ, hδu⟩, -⟩ := sub_rel_ok hp hTok hDok hsum
  have hT' := Approx.abs_sub_le' hu0 hu1 hT
  have hD' := Approx.abs_sub_le' hu0 hu1 hD
  set db := Fl.toRat (toBase (flS f) coef (flS f).constAdd fac d) with hdb
  set D := d.toRat * coef.toRat / fac.toRat with hDdef
  have hDn : |(-db) - (-D)| ≤ ((1 - uro f) ^ (-((3 : ℕ) : ℤ)) - 1) * |-D| := by
    have e : (-db) - (-D) = -(db - D) := by ring
    rw [e, abs_neg, abs_neg]; exact hD'
  have hs := abs_sum_round_le hδu hT' hDn
  rw [← sub_eq_add_neg, ← hδ] at hs
  have hres := fromBase_flS_abs_le hp Hs hcS hfin
  rw [mul_div_assoc] at hres
  have hTκ : (t.toRat + cS.toRat) * coef.toRat / fac.toRat * (fac.toRat / coef.toRat) =
      t.toRat + cS.toRat := by field_simp
  have hDκ : (-D) * (fac.toRat / coef.toRat) = -d.toRat := by rw [hDdef]; field_simp
  have hρ2 := rho_nonneg hu0 hu1 2
  have := point_interval_arith hu0 hρ2 hTκ hDκ hs hres
  simpa only [abs_neg, ← sub_eq_add_neg, Nat.cast_ofNat] using this

end c09

end Uom.Proofs

