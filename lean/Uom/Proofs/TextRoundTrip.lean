import Uom.Proofs.DurPowOracleSound
import Uom.Proofs.TimOracleSound
import Batteries.Data.String.Lemmas
import Std.Data.String.ToNat
/-!
# The text round trip `OkTextRT` of the Duration oracle, proved outright

`DurPowOracleSound.OkTextRT s n` says: what `DurResult.show` prints for `Ok(s, n)` (`s!"ok:{s}:{n}"`) is split
by `String.splitOn ":"` into `["ok", ss, ns]` with `ss.toNat? = some s`, `ns.toNat? = some n`.

Route taken: (1)+(2) of the task — no refactoring of the model.
* `String.toNat?` of a numeral: `Nat.toNat?_repr` of `Std.Data.String.ToNat` (toolchain).
* `String.splitOn` is the *legacy* `String.splitOnAux` (`Init/Data/String/Legacy.lean`, well-founded recursion
  on raw byte positions) and has no lemma in core/Batteries (`-- TODO: splitOn` in
  `Batteries/Data/String/Lemmas.lean`).  For the one-character separator `":"` it is proved here equal to the
  list-level `List.splitOnP (· == ':')` (`splitOn_colon`, for EVERY string), in the style of Batteries'
  `splitAux_of_valid`, from the Batteries facts `get_of_valid`, `next_of_valid`, `extract_of_valid`,
  `atEnd_of_valid`.
* `okTextRT : ∀ s n, OkTextRT s n` — no side condition — and the hypothesis-free forms of the three
  Duration-oracle theorems that carried `hrt`.
-/

namespace Uom.TextRoundTrip
open Uom String

set_option linter.deprecated false

theorem show_ok_eq (s n : Nat) :
    (DurResult.ok s n).show = String.ofList ('o' :: 'k' :: ':' :: (Nat.toDigits 10 s ++ ':' :: Nat.toDigits 10 n)) := by
  apply String.toList_injective
  simp [DurResult.show, toString, Nat.toList_repr]

theorem zero_get_colon : (0 : Pos.Raw).get ":" = ':' := by
  have := get_of_valid [] [':']
  simpa using this

theorem colon_size : ':'.utf8Size = 1 := by decide

theorem zero_next_colon : (0 : Pos.Raw).next ":" = ⟨1⟩ := by
  have := next_of_valid [] ':' []
  simpa [colon_size] using this

theorem one_atEnd_colon : (⟨1⟩ : Pos.Raw).atEnd ":" = true := by
  have := (atEnd_of_valid [':'] []).2 rfl
  simpa [colon_size] using this

/-- The legacy `String.splitOn` with the one-character separator `":"`, in terms of lists. -/
theorem splitOnAux_colon_of_valid (l m r : List Char) (acc : List String) :
    splitOnAux (ofList (l ++ m ++ r)) ":" ⟨utf8Len l⟩ ⟨utf8Len l + utf8Len m⟩ 0 acc =
      acc.reverse ++ (List.splitOnPPrepend (· == ':') r m.reverse).map ofList := by
  unfold splitOnAux
  simp only [List.append_assoc, atEnd_iff, rawEndPos_ofList, utf8Len_append, Pos.Raw.mk_le_mk,
    Nat.add_le_add_iff_left, (by omega : utf8Len m + utf8Len r ≤ utf8Len m ↔ utf8Len r = 0),
    utf8Len_eq_zero, List.reverse_cons]
  split
  · subst r
    simpa using extract_of_valid l m []
  · obtain ⟨c, r, rfl⟩ := r.exists_cons_of_ne_nil ‹_›
    simp only [by
      simpa [-ofList_append] using
        (⟨get_of_valid (l ++ m) (c :: r), next_of_valid (l ++ m) c r,
            extract_of_valid l m (c :: r)⟩ :
          _ ∧ _ ∧ _)]
    have hend : ":".rawEndPos = ⟨1⟩ := by
      have := rawEndPos_ofList [':']
      simpa [colon_size] using this
    have hun0 : ∀ p : Pos.Raw, p.unoffsetBy 0 = p := by intro p; ext; simp
    simp only [zero_get_colon, zero_next_colon, hend, hun0, Pos.Raw.le_refl, if_true]
    by_cases h : (c == ':') = true
    · have hc : c = ':' := by simpa using h
      subst hc
      have hun : ({ byteIdx := utf8Len l + utf8Len m + ':'.utf8Size } : Pos.Raw).unoffsetBy ⟨1⟩
          = ⟨utf8Len l + utf8Len m⟩ := by
        ext; simp [colon_size]
      rw [if_pos h, hun]
      have hx := extract_of_valid l m (':' :: r)
      simp only [List.append_assoc] at hx
      rw [hx]
      simpa [Nat.add_assoc, List.splitOnPPrepend_cons_eq_if] using
        splitOnAux_colon_of_valid (l ++ m ++ [':']) [] r ((ofList m) :: acc)
    · rw [if_neg h]
      have hn := next_of_valid (l ++ m) c r
      simp only [List.append_assoc, utf8Len_append] at hn
      rw [hn]
      simpa [List.splitOnPPrepend_cons_eq_if, h, Nat.add_assoc] using
        splitOnAux_colon_of_valid l (m ++ [c]) r acc
termination_by r.length

theorem splitOn_colon (s : String) :
    s.splitOn ":" = (List.splitOnP (· == ':') s.toList).map ofList := by
  have h : (":" == "") = false := by decide
  simpa [splitOn, h] using splitOnAux_colon_of_valid [] [] s.toList []

theorem colon_not_mem_toDigits (n : Nat) : ∀ c ∈ Nat.toDigits 10 n, (c == ':') = false := by
  intro c hc
  have hd := Nat.isDigit_of_mem_toDigits (by omega) (by omega) hc
  rw [beq_eq_false_iff_ne]
  rintro rfl
  revert hd
  decide

/-- **The text round trip of a printed `Ok` holds for all `s n`** — no side condition. -/
theorem okTextRT (s n : Nat) : DurPowOracleSound.OkTextRT s n := by
  refine ⟨Nat.repr s, Nat.repr n, ?_, Nat.toNat?_repr s, Nat.toNat?_repr n⟩
  rw [splitOn_colon, show_ok_eq, String.toList_ofList]
  have h1 : ('o' :: 'k' :: ':' :: (Nat.toDigits 10 s ++ ':' :: Nat.toDigits 10 n))
      = ['o', 'k'] ++ ':' :: (Nat.toDigits 10 s ++ ':' :: Nat.toDigits 10 n) := rfl
  rw [h1, List.splitOnP_append_cons_of_forall_mem (p := (· == ':')) (xs := ['o', 'k'])
      (by decide) ':' (by rfl),
    List.splitOnP_append_cons_of_forall_mem (p := (· == ':')) (colon_not_mem_toDigits s) ':' (by rfl),
    List.splitOnP_eq_singleton (p := (· == ':')) (colon_not_mem_toDigits n)]
  simp [← Nat.toList_repr]

/-! ## The Duration-oracle theorems without the `hrt` hypothesis -/

open DurPowOracleSound DurationAcc in
/-- `DurPowOracleSound.oracleDurFl_sound_second_b64` with no text hypothesis. -/
theorem oracleDurFl_sound_second_b64 {v : Fl} (hc : Fl.Canonical b64 v) (m : String) :
    NotProp (oracleDurFl b64 (Fl.one b64) (Fl.one b64) cn64 v m
      (durOfTimeFl b64 (Fl.one b64) (Fl.one b64) cn64 v).show) :=
  DurPowOracleSound.oracleDurFl_sound_second_b64 hc (fun s n _ => okTextRT s n) m

open DurPowOracleSound DurationAcc in
/-- `TimOracleSound.oracleDurFl_sound_second_b32` with no text hypothesis. -/
theorem oracleDurFl_sound_second_b32 {v : Fl} (hc : Fl.Canonical b32 v) (m : String) :
    NotProp (oracleDurFl b32 (Fl.one b32) (Fl.one b32) cn32 v m
      (durOfTimeFl b32 (Fl.one b32) (Fl.one b32) cn32 v).show) :=
  TimOracleSound.oracleDurFl_sound_second_b32 hc (fun s n _ => okTextRT s n) m

/-- `DurPowOracleSound.oracleDurFl_tag` with no text hypothesis. -/
theorem oracleDurFl_tag {f : Fmt} (hf : f.WF) (hp2 : 2 ≤ f.p) (hp61 : f.p ≤ 61) (fac cs cn v : Fl)
    (hcv : Fl.Canonical f v) (hfac : 0 < fac.toRat) (hcs : 0 < cs.toRat)
    (hsb : Fl.cmp fac cs ≠ some 0)
    (tag why : String)
    (h : oracleDurFl f fac cs cn v (durOfTimeFl f fac cs cn v).show
      (durOfTimeFl f fac cs cn v).show = .prop tag why) : tag = "dur.F4" :=
  DurPowOracleSound.oracleDurFl_tag hf hp2 hp61 fac cs cn v hcv hfac hcs hsb
    (fun s n _ => okTextRT s n) tag why h

#print axioms splitOn_colon
#print axioms okTextRT
#print axioms oracleDurFl_sound_second_b64
#print axioms oracleDurFl_sound_second_b32
#print axioms oracleDurFl_tag

end Uom.TextRoundTrip
