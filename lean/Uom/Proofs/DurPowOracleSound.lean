import Uom.Model.Lines
import Uom.Proofs.DurationAcc
import Uom.Proofs.OracleSound
import Mathlib.Tactic.IntervalCases
import Uom.Proofs.OpsOracleSound
/-!
# Soundness of the Duration oracles and of the float `pow` oracle of `Uom/Model/Lines.lean`

* `oracleDurFl` (Time → Duration, handler `handleDurFl`),
* `oraclePowFl` (one factor of the base-unit combination, `pow` / complex `xpow` lines),
* `oracleTimFl` (Duration → Time, handler `handleTimFl`).
-/

namespace Uom.DurPowOracleSound
open Uom Uom.Proofs Uom.DurationAcc

/-! ## 0. text facts -/

/-- **Text round trip of an `Ok` answer** — the only fact about `String.splitOn` / `String.toNat?`
    the proofs need: what `DurResult.show` prints for `Ok(s, n)` is split at `':'` into `"ok"` and two
    numerals that read back as `s` and `n`.
    (Lean 4.33 core has no lemmas about the legacy `String.splitOn`, and the kernel cannot even
    evaluate it on closed strings (well-founded recursion over raw byte positions), so this is kept as
    an explicit hypothesis of the theorems below.) -/
def OkTextRT (s n : Nat) : Prop :=
  ∃ ss ns : String, (DurResult.ok s n).show.splitOn ":" = ["ok", ss, ns] ∧
    ss.toNat? = some s ∧ ns.toNat? = some n

theorem show_ok_head (s n : Nat) : (DurResult.ok s n).show.toList.head? = some 'o' := by
  simp only [DurResult.show, String.toList_append]
  show ("ok:".toList ++ _ ++ _ ++ _ ++ _).head? = _
  simp

theorem show_ok_ne_panic (s n : Nat) : ((DurResult.ok s n).show == "PANIC") = false := by
  rw [beq_eq_false_iff_ne]
  intro h
  have hl := show_ok_head s n
  rw [h] at hl
  simp at hl

theorem show_ok_ne_neg (s n : Nat) : ((DurResult.ok s n).show == "neg") = false := by
  rw [beq_eq_false_iff_ne]
  intro h
  have hl := show_ok_head s n
  rw [h] at hl
  simp at hl

theorem show_ok_ne_overflow (s n : Nat) : ((DurResult.ok s n).show == "overflow") = false := by
  rw [beq_eq_false_iff_ne]
  intro h
  have hl := show_ok_head s n
  rw [h] at hl
  have : "overflow".toList.head? = some 'o' := by simp
  -- both start with 'o': compare the second character instead
  have h2 : (DurResult.ok s n).show.toList[1]? = some 'k' := by
    simp only [DurResult.show, String.toList_append]
    show ("ok:".toList ++ _ ++ _ ++ _ ++ _)[1]? = _
    simp
  rw [h] at h2
  simp at h2

/-! ## 1. `oracleDurFl`: the branches, one lemma each -/

theorem ratAbs_eq_abs (r : Rat) : ratAbs r = |r| := by
  unfold ratAbs
  split
  · next h => rw [abs_of_neg h]
  · next h => rw [abs_of_nonneg (not_lt.mp h)]

/-- `Overflow` answered where the oracle expects it -/
theorem oracleDurFl_overflow (f : Fmt) (fac cs cn v : Fl) (m : String)
    (hneg : Fl.lt v (Fl.zero f false) = false)
    (h : v.isFinite = true →
      ((2 ^ 64 : Nat) : Rat) * (1 - 4 * uro f) ≤ v.toRat * fac.toRat / cs.toRat) :
    ∃ o, oracleDurFl f fac cs cn v m "overflow" = o ∧ (o = .ok ∨ ∃ w, o = .guard w) := by
  unfold oracleDurFl
  simp only [show ("overflow" == "PANIC") = false by decide, show ("overflow" == "neg") = false by decide,
    show ("overflow" == "overflow") = true by decide, hneg, if_true, Bool.false_eq_true, if_false]
  by_cases hnan : v.isNan = true
  · simp [hnan]
  · by_cases hfin : v.isFinite = true
    · have := h hfin
      simp only [hnan, hfin, Bool.not_true, Bool.false_eq_true, if_false]
      split
      · exact ⟨_, rfl, Or.inl rfl⟩
      · exact ⟨_, rfl, Or.inr ⟨_, rfl⟩⟩
    · simp [hnan, hfin]

/-- `NegativeDuration` answered for a strictly negative time -/
theorem oracleDurFl_neg (f : Fmt) (fac cs cn v : Fl) (m : String)
    (hneg : Fl.lt v (Fl.zero f false) = true) :
    oracleDurFl f fac cs cn v m "neg" = .ok := by
  have hnan : v.isNan = false := by
    cases v <;> simp_all [Fl.lt, Fl.cmp, Fl.isNan]
  unfold oracleDurFl
  simp [show ("neg" == "PANIC") = false by decide, hnan, hneg]

/-- an `Ok(s, n)` answer within the tolerance -/
theorem oracleDurFl_ok (f : Fmt) (fac cs cn v : Fl) (m : String) (s n : Nat)
    (hrt : OkTextRT s n)
    (hneg : Fl.lt v (Fl.zero f false) = false) (hfin : v.isFinite = true)
    (h64 : v.toRat * fac.toRat / cs.toRat < ((2 ^ 64 : Nat) : Rat) * (1 + 4 * uro f))
    (hacc : |(s : Rat) + (n : Rat) / 1000000000 - v.toRat * fac.toRat / cs.toRat| ≤
      1 / 1000000000 + 4 * uro f * (v.toRat * fac.toRat / cs.toRat)) :
    oracleDurFl f fac cs cn v m (DurResult.ok s n).show = .ok := by
  obtain ⟨ss, ns, hsp, hss, hns⟩ := hrt
  have hnan : v.isNan = false := by cases v <;> simp_all [Fl.isFinite, Fl.isNan]
  unfold oracleDurFl
  simp only [show_ok_ne_panic, show_ok_ne_neg, show_ok_ne_overflow, hnan, hneg, hfin, Bool.not_true,
    Bool.false_eq_true, if_false, ge_iff_le, not_le.mpr h64, hsp, hss, hns, ratAbs_eq_abs]
  rw [if_pos hacc]


/-! ## 2. `oracleDurFl` in the second base, binary64 -/

/-- verdicts that are not failures -/
def NotProp (o : Outcome) : Prop := ∀ tag why, o ≠ .prop tag why

theorem notProp_ok : NotProp .ok := fun _ _ h => by cases h
theorem notProp_guard (w : String) : NotProp (.guard w) := fun _ _ h => by cases h

theorem uro_b64 : uro b64 = 1 / 2 ^ 53 := by
  unfold uro; norm_num [b64]

/-- the fine accuracy statement the oracle needs: the excess over 1 ns is `frac(v)·2^-23` ns, which is
    below `4u·v` -/
theorem acc_second_b64 {v : Fl} (hc : Fl.Canonical b64 v) {s n : Nat}
    (h : durOfTimeFl b64 (Fl.one b64) (Fl.one b64) cn64 v = .ok s n) :
    |(s : Rat) + (n : Rat) / 1000000000 - v.toRat| ≤ 1 / 1000000000 + 4 * (1 / 2 ^ 53) * v.toRat := by
  obtain ⟨-, h0, -, hs, hn9, hlo, hhi⟩ := ok_second_base_b64 hc h
  obtain ⟨hρ0, hρ1⟩ := frac_bounds v.toRat
  have hF0 : 0 ≤ v.toRat.floor := Rat.le_floor_iff.mpr (by simpa using h0)
  have hF0' : (0 : Rat) ≤ ((v.toRat.floor : Int) : Rat) := by exact_mod_cast hF0
  have hsQ : (s : Rat) = ((v.toRat.floor : Int) : Rat) := by
    rw [← hs]; simp
  set ρ := v.toRat - ((v.toRat.floor : Int) : Rat) with hρ
  have hx := frac_bounds (ρ * (1000000000 - 1 / 2 ^ 23))
  have hloQ : (((ρ * (1000000000 - 1 / 2 ^ 23)).floor : Int) : Rat) ≤ (n : Rat) := by
    have : (((ρ * (1000000000 - 1 / 2 ^ 23)).floor : Int) : Rat) ≤ (((n : Nat) : Int) : Rat) := by
      exact_mod_cast hlo
    simpa using this
  have hv : v.toRat = ((v.toRat.floor : Int) : Rat) + ρ := by rw [hρ]; ring
  have e : (s : Rat) + (n : Rat) / 1000000000 - v.toRat = ((n : Rat) - ρ * 1000000000) / 1000000000 := by
    rw [hsQ, hρ]; field_simp; ring
  rw [e, abs_le]
  constructor
  · rw [le_div_iff₀ (by norm_num)]
    nlinarith
  · rw [div_le_iff₀ (by norm_num)]
    nlinarith

/-- **Soundness of `oracleDurFl`, second base (SI default `fac = cs = 1.0`, `cn` the binary64
    nanosecond coefficient), binary64.**  For every canonical stored time `v` — NaN, infinities,
    negative values, subnormals, values beyond `2^64` included — the oracle evaluated on what the model
    itself prints never answers `.prop` (whatever the tag).
    The only hypothesis besides canonicity is the text round trip `OkTextRT` of the printed `Ok`. -/
theorem oracleDurFl_sound_second_b64 {v : Fl} (hc : Fl.Canonical b64 v)
    (hrt : ∀ s n, durOfTimeFl b64 (Fl.one b64) (Fl.one b64) cn64 v = .ok s n → OkTextRT s n)
    (m : String) :
    NotProp (oracleDurFl b64 (Fl.one b64) (Fl.one b64) cn64 v m
      (durOfTimeFl b64 (Fl.one b64) (Fl.one b64) cn64 v).show) := by
  have h1 : (Fl.one b64).toRat = 1 := one_toRat b64_wf.hp
  by_cases hneg : Fl.lt v (Fl.zero b64 false) = true
  · have : durOfTimeFl b64 (Fl.one b64) (Fl.one b64) cn64 v = .negative := by
      rw [durOfTimeFl_second b64_wf cn64 v hc, if_pos hneg]
    rw [this]
    show NotProp (oracleDurFl b64 (Fl.one b64) (Fl.one b64) cn64 v m "neg")
    rw [oracleDurFl_neg _ _ _ _ _ _ hneg]; exact notProp_ok
  · have hneg' : Fl.lt v (Fl.zero b64 false) = false := by simpa using hneg
    by_cases hin : v.isFinite = true ∧ v.toRat < 2 ^ 64
    · obtain ⟨hfin, h64⟩ := hin
      have h0 : 0 ≤ v.toRat := by
        have := (lt_eq_false_toRat hfin (zero_isFinite b64 false)).mp hneg'
        rwa [toRat_zero] at this
      obtain ⟨s, n, hsn, -, -⟩ := total_second_base_b64 hc hfin h0 h64
      rw [hsn]
      have hu0 : (0 : Rat) ≤ 4 * uro b64 := by rw [uro_b64]; norm_num
      rw [oracleDurFl_ok b64 _ _ _ v m s n (hrt s n hsn) hneg' hfin]
      · exact notProp_ok
      · rw [h1, mul_one, div_one]
        calc v.toRat < 2 ^ 64 := h64
          _ = ((2 ^ 64 : Nat) : Rat) * 1 := by norm_num
          _ ≤ ((2 ^ 64 : Nat) : Rat) * (1 + 4 * uro b64) :=
              mul_le_mul_of_nonneg_left (by linarith) (by positivity)
      · rw [h1, mul_one, div_one, uro_b64]
        exact acc_second_b64 hc hsn
    · have hov : durOfTimeFl b64 (Fl.one b64) (Fl.one b64) cn64 v = .overflow := by
        refine overflow_second_base b64_wf cn64 hc hneg' (fun hfin => ?_)
        by_contra hlt
        exact hin ⟨hfin, not_le.mp hlt⟩
      rw [hov]
      show NotProp (oracleDurFl b64 (Fl.one b64) (Fl.one b64) cn64 v m "overflow")
      obtain ⟨o, ho, hcase⟩ := oracleDurFl_overflow b64 (Fl.one b64) (Fl.one b64) cn64 v m hneg'
        (fun hfin => by
          rw [h1, mul_one, div_one]
          have h64 : (2 : Rat) ^ 64 ≤ v.toRat := by
            by_contra hlt
            exact hin ⟨hfin, not_le.mp hlt⟩
          have hu0 : (0 : Rat) ≤ 4 * uro b64 := by rw [uro_b64]; norm_num
          calc ((2 ^ 64 : Nat) : Rat) * (1 - 4 * uro b64) ≤ ((2 ^ 64 : Nat) : Rat) * 1 :=
                mul_le_mul_of_nonneg_left (by linarith) (by positivity)
            _ = 2 ^ 64 := by norm_num
            _ ≤ v.toRat := h64)
      rw [ho]
      rcases hcase with rfl | ⟨w, rfl⟩
      · exact notProp_ok
      · exact notProp_guard w


/-! ## 3. `oracleDurFl`, any base: the only failing tag is the recorded finding `dur.F4` -/

theorem durOfTimeFl_negative_iff (f : Fmt) (fac cs cn v : Fl) :
    durOfTimeFl f fac cs cn v = .negative ↔ Fl.lt v (Fl.zero f false) = true := by
  unfold durOfTimeFl
  constructor
  · intro h
    by_contra hlt
    simp only [hlt, if_false] at h
    revert h
    split
    · exact DurationBasic.durationNew_ne_negative _ _
    · intro h; cases h
  · intro h; simp [h]

/-- the shape of the oracle in a base unit other than the second, on the model's own answer:
    *classification* hypotheses in, "ok, guard or F4" out.

    **Partial** with respect to the task statement in two respects, both stated as hypotheses:
    * `hpanic`: the model's answer is not the `Duration::new` panic (true for every format with
      `p ≤ 61`, where `to_u64` of a float is at most `2^64 - 8` — not proved here);
    * `hcls`: for NaN, `+∞` and times `t ≥ 2^64·(1+4u)` the model answers `Overflow` (a two-rounding
      argument on `from_base`: `fl(v·fl(fac/cs)) ≥ t(1-u)^2 ≥ 2^64`; the quotient that is rounded is
      `≥ 1`, so it cannot underflow — not proved here).
    In the second base no such statement holds for an arbitrary `cn` (with `cn = 1.0` the nanosecond
    part is always `0` and `dur.accuracy` fires rightly); see `oracleDurFl_sound_second_b64`. -/
theorem oracleDurFl_tag_partial (f : Fmt) (fac cs cn v : Fl)
    (hsb : Fl.cmp fac cs ≠ some 0)
    (hpanic : durOfTimeFl f fac cs cn v ≠ .panic)
    (hrt : ∀ s n, durOfTimeFl f fac cs cn v = .ok s n → OkTextRT s n)
    (hcls : Fl.lt v (Fl.zero f false) = false →
      (v.isNan = true ∨ v.isFinite = false ∨
        ((2 ^ 64 : Nat) : Rat) * (1 + 4 * uro f) ≤ v.toRat * fac.toRat / cs.toRat) →
      durOfTimeFl f fac cs cn v = .overflow)
    (tag why : String)
    (h : oracleDurFl f fac cs cn v (durOfTimeFl f fac cs cn v).show
      (durOfTimeFl f fac cs cn v).show = .prop tag why) : tag = "dur.F4" := by
  have hsb' : (Fl.cmp fac cs == some 0) = false := by
    rw [beq_eq_false_iff_ne]; exact hsb
  rcases hm : durOfTimeFl f fac cs cn v with _ | _ | _ | _
  · -- ok s n
    rename_i s n
    have hlt : Fl.lt v (Fl.zero f false) = false := by
      by_contra hlt
      have := (durOfTimeFl_negative_iff f fac cs cn v).mpr (by simpa using hlt)
      rw [hm] at this; cases this
    have hno : ¬ (v.isNan = true ∨ v.isFinite = false ∨
        ((2 ^ 64 : Nat) : Rat) * (1 + 4 * uro f) ≤ v.toRat * fac.toRat / cs.toRat) := by
      intro hc
      have := hcls hlt hc
      rw [hm] at this; cases this
    have hnan : v.isNan = false := by
      cases hn : v.isNan
      · rfl
      · exact absurd (Or.inl hn) hno
    have hfin : v.isFinite = true := by
      cases hn : v.isFinite
      · exact absurd (Or.inr (Or.inl hn)) hno
      · rfl
    have h64 : ¬ ((2 ^ 64 : Nat) : Rat) * (1 + 4 * uro f) ≤ v.toRat * fac.toRat / cs.toRat :=
      fun hc => hno (Or.inr (Or.inr hc))
    obtain ⟨ss, ns, hsp, hss, hns⟩ := hrt s n hm
    rw [hm] at h
    unfold oracleDurFl at h
    simp only [show_ok_ne_panic, show_ok_ne_neg, show_ok_ne_overflow, hnan, hlt, hfin, Bool.not_true,
      Bool.false_eq_true, if_false, ge_iff_le, h64, hsp, hss, hns, hsb', Bool.not_false,
      Bool.true_and, beq_self_eq_true, if_true] at h
    split at h
    · cases h
    · injection h with h1 _; exact h1.symm
  · -- negative
    have hlt := (durOfTimeFl_negative_iff f fac cs cn v).mp hm
    rw [hm] at h
    have := oracleDurFl_neg f fac cs cn v "neg" hlt
    rw [show (DurResult.negative).show = "neg" from rfl, this] at h
    cases h
  · -- overflow
    have hlt : Fl.lt v (Fl.zero f false) = false := by
      by_contra hlt
      have := (durOfTimeFl_negative_iff f fac cs cn v).mpr (by simpa using hlt)
      rw [hm] at this; cases this
    rw [hm] at h
    rw [show (DurResult.overflow).show = "overflow" from rfl] at h
    unfold oracleDurFl at h
    simp only [show ("overflow" == "PANIC") = false by decide,
      show ("overflow" == "neg") = false by decide,
      show ("overflow" == "overflow") = true by decide, hlt, if_true, Bool.false_eq_true, if_false,
      hsb', Bool.not_false, Bool.true_and] at h
    repeat' split at h
    all_goals first | (cases h; done) | (injection h with h1 _; exact h1.symm)
  · exact absurd hm hpanic


/-! ## 4. exponentiation by squaring: error count -/

section powgen
variable {α : Type} (mul : α → α → α) (val : α → Rat) (P : α → Prop) (u : Rat)

/-- every product formed by `powLoop1` satisfies `P` -/
def Loop1N : Nat → α → Nat → Prop
  | 0, _, _ => True
  | fuel + 1, base, exp =>
    if exp % 2 = 0 then P (mul base base) ∧ Loop1N fuel (mul base base) (exp / 2) else True

/-- every product formed by `powLoop2` satisfies `P` -/
def Loop2N : Nat → α → α → Nat → Prop
  | 0, _, _, _ => True
  | fuel + 1, base, acc, exp =>
    if exp > 1 then
      P (mul base base) ∧ P (if (exp / 2) % 2 = 1 then mul acc (mul base base) else acc) ∧
      Loop2N fuel (mul base base) (if (exp / 2) % 2 = 1 then mul acc (mul base base) else acc) (exp / 2)
    else True

/-- every product formed by `powNat … base exp` satisfies `P` (and so does `base`) -/
def PowN (base : α) (exp : Nat) : Prop :=
  P base ∧ Loop1N mul P 64 base exp ∧
    ((powLoop1 mul 64 base exp).2 ≠ 1 →
      Loop2N mul P 64 (powLoop1 mul 64 base exp).1 (powLoop1 mul 64 base exp).1 (powLoop1 mul 64 base exp).2)

theorem powNat_eq (one : α) (base : α) (exp : Nat) :
    powNat one mul base exp = if exp = 0 then one
      else if (powLoop1 mul 64 base exp).2 = 1 then (powLoop1 mul 64 base exp).1
      else powLoop2 mul 64 (powLoop1 mul 64 base exp).1 (powLoop1 mul 64 base exp).1
        (powLoop1 mul 64 base exp).2 := by
  unfold powNat
  split
  · rfl
  · rfl

variable {mul val P u}

/-- one rounded product of two approximations -/
theorem approx_mul_step (hu0 : 0 ≤ u) (hu1 : u < 1)
    (hmul : ∀ a b, P a → P b → P (mul a b) → Approx u 1 (val (mul a b)) (val a * val b))
    {a b : α} {j k : Nat} {A B : Rat} (ha : Approx u j (val a) A) (hb : Approx u k (val b) B)
    (pa : P a) (pb : P b) (pab : P (mul a b)) :
    Approx u (1 + (j + k)) (val (mul a b)) (A * B) :=
  Approx.trans hu1 (hmul a b pa pb pab) (Approx.mul hu0 hu1 ha hb)

theorem loop1_approx (hu0 : 0 ≤ u) (hu1 : u < 1)
    (hmul : ∀ a b, P a → P b → P (mul a b) → Approx u 1 (val (mul a b)) (val a * val b)) (X : Rat) :
    ∀ (fuel : Nat) (base : α) (exp a : Nat), 1 ≤ a → P base → Approx u (a - 1) (val base) (X ^ a) →
      Loop1N mul P fuel base exp → exp ≠ 0 → exp < 2 ^ fuel →
      ∃ a', 1 ≤ a' ∧ P (powLoop1 mul fuel base exp).1 ∧
        Approx u (a' - 1) (val (powLoop1 mul fuel base exp).1) (X ^ a') ∧
        a' * (powLoop1 mul fuel base exp).2 = a * exp ∧ (powLoop1 mul fuel base exp).2 % 2 = 1 ∧
        (powLoop1 mul fuel base exp).2 ≤ exp := by
  intro fuel
  induction fuel with
  | zero => intro base exp a _ _ _ _ h0 hlt; simp at hlt; exact absurd hlt h0
  | succ fuel ih =>
    intro base exp a ha pb hb hN h0 hlt
    unfold powLoop1
    by_cases hev : exp % 2 = 0
    · rw [if_pos hev]
      unfold Loop1N at hN
      rw [if_pos hev] at hN
      have hb2 : Approx u (2 * a - 1) (val (mul base base)) (X ^ (2 * a)) := by
        have := approx_mul_step hu0 hu1 hmul hb hb pb pb hN.1
        have e1 : 1 + (a - 1 + (a - 1)) = 2 * a - 1 := by omega
        have e2 : X ^ a * X ^ a = X ^ (2 * a) := by rw [← pow_add]; congr 1; omega
        rwa [e1, e2] at this
      obtain ⟨a', h1, h2, h3, h4, h5, h6⟩ := ih (mul base base) (exp / 2) (2 * a) (by omega) hN.1 hb2 hN.2
        (by omega) (by rw [Nat.pow_succ] at hlt; omega)
      refine ⟨a', h1, h2, h3, ?_, h5, by omega⟩
      rw [h4]
      have : exp = 2 * (exp / 2) := by omega
      calc 2 * a * (exp / 2) = a * (2 * (exp / 2)) := by ring
        _ = a * exp := by rw [← this]
    · rw [if_neg hev]
      exact ⟨a, ha, pb, hb, rfl, by omega, le_refl _⟩

theorem loop2_approx (hu0 : 0 ≤ u) (hu1 : u < 1)
    (hmul : ∀ a b, P a → P b → P (mul a b) → Approx u 1 (val (mul a b)) (val a * val b)) (X : Rat) :
    ∀ (fuel : Nat) (base acc : α) (exp a c : Nat), 1 ≤ a → 1 ≤ c → P base → P acc →
      Approx u (a - 1) (val base) (X ^ a) → Approx u (c - 1) (val acc) (X ^ c) →
      Loop2N mul P fuel base acc exp → exp < 2 ^ fuel →
      Approx u (c + a * (exp - exp % 2) - 1) (val (powLoop2 mul fuel base acc exp))
        (X ^ (c + a * (exp - exp % 2))) := by
  intro fuel
  induction fuel with
  | zero =>
    intro base acc exp a c _ _ _ _ _ hc _ hlt
    have : exp = 0 := by simpa using hlt
    subst this
    simpa [powLoop2] using hc
  | succ fuel ih =>
    intro base acc exp a c ha hc pb pa hb hacc hN hlt
    unfold powLoop2
    by_cases hgt : exp > 1
    · rw [if_pos hgt]
      unfold Loop2N at hN
      rw [if_pos hgt] at hN
      obtain ⟨pb2, pacc2, hN2⟩ := hN
      have hb2 : Approx u (2 * a - 1) (val (mul base base)) (X ^ (2 * a)) := by
        have := approx_mul_step hu0 hu1 hmul hb hb pb pb pb2
        have e1 : 1 + (a - 1 + (a - 1)) = 2 * a - 1 := by omega
        have e2 : X ^ a * X ^ a = X ^ (2 * a) := by rw [← pow_add]; congr 1; omega
        rwa [e1, e2] at this
      have hlt2 : exp / 2 < 2 ^ fuel := by rw [Nat.pow_succ] at hlt; omega
      have key : exp - exp % 2 = 2 * (exp / 2) := by omega
      by_cases hodd : (exp / 2) % 2 = 1
      · simp only [hodd, if_true] at pacc2 hN2 ⊢
        have hacc2 : Approx u (c + 2 * a - 1) (val (mul acc (mul base base))) (X ^ (c + 2 * a)) := by
          have := approx_mul_step hu0 hu1 hmul hacc hb2 pa pb2 pacc2
          have e1 : 1 + (c - 1 + (2 * a - 1)) = c + 2 * a - 1 := by omega
          have e2 : X ^ c * X ^ (2 * a) = X ^ (c + 2 * a) := by rw [← pow_add]
          rwa [e1, e2] at this
        have := ih (mul base base) (mul acc (mul base base)) (exp / 2) (2 * a) (c + 2 * a) (by omega)
          (by omega) pb2 pacc2 hb2 hacc2 hN2 hlt2
        have e : c + 2 * a + 2 * a * (exp / 2 - exp / 2 % 2) = c + a * (exp - exp % 2) := by
          rw [key, hodd]
          have h1 : 1 ≤ exp / 2 := by omega
          have : exp / 2 = (exp / 2 - 1) + 1 := by omega
          calc c + 2 * a + 2 * a * (exp / 2 - 1) = c + 2 * a * ((exp / 2 - 1) + 1) := by ring
            _ = c + a * (2 * (exp / 2)) := by rw [← this]; ring
        rwa [e] at this
      · have hev : (exp / 2) % 2 = 0 := by omega
        simp only [hodd, if_false] at pacc2 hN2 ⊢
        have := ih (mul base base) acc (exp / 2) (2 * a) c (by omega) hc pb2 pa hb2 hacc hN2 hlt2
        have e : c + 2 * a * (exp / 2 - exp / 2 % 2) = c + a * (exp - exp % 2) := by
          rw [key, hev, Nat.sub_zero]; ring
        rwa [e] at this
    · rw [if_neg hgt]
      have : exp - exp % 2 = 0 := by omega
      rw [this, Nat.mul_zero, Nat.add_zero]
      exact hacc

/-- **`pow` by squaring, error count**: if every product formed satisfies `P` (for floats: is a normal
    number), `powNat one mul base exp` is `X^exp` up to `exp - 1` roundings when `base` is `X` exactly.
    (The number of *operations* is `≤ 2·log2 exp`, but the rounding error of an early square is
    squared again by every later one: the error count is the number of multiplications of the
    *unshared* product tree, `exp - 1`.) -/
theorem powNat_approx (hu0 : 0 ≤ u) (hu1 : u < 1)
    (hmul : ∀ a b, P a → P b → P (mul a b) → Approx u 1 (val (mul a b)) (val a * val b))
    (one base : α) (exp : Nat) (h0 : exp ≠ 0) (h64 : exp < 2 ^ 64) (hN : PowN mul P base exp) :
    Approx u (exp - 1) (val (powNat one mul base exp)) (val base ^ exp) := by
  obtain ⟨pb, hN1, hN2⟩ := hN
  rw [powNat_eq, if_neg h0]
  have hb : Approx u (1 - 1) (val base) (val base ^ 1) := by simpa using Approx.refl (u := u) (val base)
  obtain ⟨a', h1, p1, hA, hprod, hodd, hle⟩ :=
    loop1_approx hu0 hu1 hmul (val base) 64 base exp 1 (le_refl _) pb hb hN1 h0 h64
  by_cases he1 : (powLoop1 mul 64 base exp).2 = 1
  · rw [if_pos he1]
    rw [he1] at hprod
    have : a' = exp := by omega
    rwa [this] at hA
  · rw [if_neg he1]
    have := loop2_approx hu0 hu1 hmul (val base) 64 _ _ (powLoop1 mul 64 base exp).2 a' a' h1 h1 p1 p1
      hA hA (hN2 he1) (lt_of_le_of_lt hle h64)
    have e : a' + a' * ((powLoop1 mul 64 base exp).2 - (powLoop1 mul 64 base exp).2 % 2) = exp := by
      rw [hodd]
      have h1' : 1 ≤ (powLoop1 mul 64 base exp).2 := by omega
      have : (powLoop1 mul 64 base exp).2 = ((powLoop1 mul 64 base exp).2 - 1) + 1 := by omega
      calc a' + a' * ((powLoop1 mul 64 base exp).2 - 1)
          = a' * (((powLoop1 mul 64 base exp).2 - 1) + 1) := by ring
        _ = a' * (powLoop1 mul 64 base exp).2 := by rw [← this]
        _ = exp := by rw [hprod]; ring
    rwa [e] at this

end powgen


/-! ## 5. the float instance and `oraclePowFl` -/

theorem Approx_pow {u : Rat} (hu0 : 0 ≤ u) (hu1 : u < 1) {j : Nat} {x y : Rat} (h : Approx u j x y) :
    ∀ n : Nat, Approx u (n * j) (x ^ n) (y ^ n)
  | 0 => by simpa using Approx.refl (u := u) (1 : Rat)
  | n + 1 => by
    have := Approx.mul hu0 hu1 (Approx_pow hu0 hu1 h n) h
    rwa [← pow_succ, ← pow_succ, ← Nat.succ_mul] at this

variable {f : Fmt}

theorem mul_isFinite_ok {a b : Fl} (ha : a.isFinite = true) (hb : b.isFinite = true)
    (h : (Fl.mul f a b).isFinite = true) : Ok f (Fl.mul f a b) := by
  cases a with
  | nan => simp [Fl.isFinite] at ha
  | inf s => simp [Fl.isFinite] at ha
  | fin s1 m1 e1 =>
    cases b with
    | nan => simp [Fl.isFinite] at hb
    | inf s => simp [Fl.isFinite] at hb
    | fin s2 m2 e2 => exact mul_ok s1 s2 m1 m2 e1 e2 h

/-- one rounding for a product of normal numbers whose result is normal -/
theorem mul_normal_approx (hp : 1 ≤ f.p) (a b : Fl) (ha : Fl.isNormal f a = true)
    (hb : Fl.isNormal f b = true) (hab : Fl.isNormal f (Fl.mul f a b) = true) :
    Approx (Uom.Proofs.uro f) 1 (Fl.mul f a b).toRat (a.toRat * b.toRat) := by
  have fa := isNormal_isFinite ha
  have fb := isNormal_isFinite hb
  have fab := isNormal_isFinite hab
  exact (mul_approx_normal hp fa fb fab
    (nmin_le_of_isNormal hp (mul_isFinite_ok fa fb fab) hab)).1

/-- "every intermediate of `powi` is a normal number": the reciprocal (negative exponents), the
    running base, every square and every accumulated product -/
def PowNormal (f : Fmt) (c : Fl) (e : Int) : Prop :=
  if e < 0 then PowN (Fl.mul f) (fun x => Fl.isNormal f x = true) (Fl.recip f c) (-e).toNat
  else PowN (Fl.mul f) (fun x => Fl.isNormal f x = true) c e.toNat

/-- **`powi` on floats**: `c^e` up to `powErr e` roundings, when every intermediate is normal -/
theorem flPowi_approx (hp : 1 ≤ f.p) (c : Fl) (hc : c.isFinite = true) (e : Int)
    (he : e.natAbs < 2 ^ 64) (hN : PowNormal f c e) :
    Approx (Uom.Proofs.uro f) (powErr e) (flPowi f c e).toRat (c.toRat ^ e) := by
  have hu0 := uro_nonneg f
  have hu1 := uro_lt_one f hp
  unfold flPowi powErr
  by_cases h0 : e = 0
  · subst h0
    simp only [if_true, lt_self_iff_false, if_false, Int.natAbs_zero, zpow_zero]
    rw [one_toRat hp]; exact Approx.refl 1
  · rw [if_neg h0]
    unfold PowNormal at hN
    by_cases hneg : e < 0
    · rw [if_pos hneg] at hN ⊢
      rw [if_pos hneg]
      obtain ⟨n, hn⟩ : ∃ n : Nat, (-e).toNat = n := ⟨_, rfl⟩
      have hen : e = -(n : Int) := by omega
      have hn0 : n ≠ 0 := by omega
      have hnabs : e.natAbs = n := by omega
      rw [hn] at hN ⊢
      have hA := powNat_approx (mul := Fl.mul f) (val := Fl.toRat)
        (P := fun x => Fl.isNormal f x = true) hu0 hu1
        (fun a b pa pb pab => mul_normal_approx hp a b pa pb pab) (Fl.one f) (Fl.recip f c) n hn0
        (by omega) hN
      have hr : Approx (Uom.Proofs.uro f) 1 (Fl.recip f c).toRat (1 / c.toRat) := by
        have hrn : Fl.isNormal f (Fl.recip f c) = true := hN.1
        have hrf := isNormal_isFinite hrn
        have h1 : (Fl.one f).isFinite = true := rfl
        have hok := (div_approx_normal hp h1 hc hrf (by
          -- `Ok` does not depend on the magnitude hypothesis: get it from the quotient directly
          cases c with
          | nan => simp [Fl.isFinite] at hc
          | inf s => simp [Fl.isFinite] at hc
          | fin s2 m2 e2 =>
            have hOk : Ok f (Fl.recip f (Fl.fin s2 m2 e2)) := by
              have hfin' := hrf
              unfold Fl.recip Fl.one at hfin' ⊢
              by_cases h2 : m2 = 0
              · subst h2
                simp [Fl.div, Fl.isFinite] at hfin'
              · have h1p : 0 < 2 ^ (f.p - 1) := Nat.two_pow_pos _
                rw [div_fin_eq f _ _ _ _ _ _ h1p (Nat.pos_of_ne_zero h2)] at hfin' ⊢
                exact roundDy_ok f _ _ _ hfin'
            exact nmin_le_of_isNormal hp hOk hrn))
        have := hok.1
        rwa [one_toRat hp] at this
      have hP := Approx_pow hu0 hu1 hr n
      have hT := Approx.trans hu1 hA hP
      have e1 : n - 1 + n * 1 = 2 * n - 1 := by omega
      have e2 : (1 / c.toRat) ^ n = c.toRat ^ e := by
        rw [hen, zpow_neg, zpow_natCast, one_div, inv_pow]
      rw [hnabs]
      rwa [e1, e2] at hT
    · rw [if_neg hneg] at hN ⊢
      rw [if_neg hneg]
      obtain ⟨n, hn⟩ : ∃ n : Nat, e.toNat = n := ⟨_, rfl⟩
      have hen : e = (n : Int) := by omega
      have hn0 : n ≠ 0 := by omega
      have hnabs : e.natAbs = n := by omega
      rw [hn] at hN ⊢
      have hA := powNat_approx (mul := Fl.mul f) (val := Fl.toRat)
        (P := fun x => Fl.isNormal f x = true) hu0 hu1
        (fun a b pa pb pab => mul_normal_approx hp a b pa pb pab) (Fl.one f) c n hn0
        (by omega) hN
      rw [hnabs, hen, zpow_natCast]
      exact hA

/-- the shape of `oraclePowFlOld` (the tolerance as first written): within the tolerance it does not fail -/
theorem oraclePowFlOld_notProp_of_le (f : Fmt) (c : Fl) (e : Int) (o : Fl)
    (h : c.isFinite = true → |o.toRat - c.toRat ^ e| ≤
      2 * ((2 * (e.natAbs.log2 + 1) + 1 : Nat) : Rat) * Uom.uro f * |c.toRat ^ e|) :
    NotProp (oraclePowFlOld f c e o) := by
  unfold oraclePowFlOld
  by_cases hg : (!(c.isFinite && o.isFinite) || c.isZero) = true
  · rw [if_pos hg]; exact notProp_guard _
  · rw [if_neg hg]
    have hc : c.isFinite = true := by
      cases hcf : c.isFinite
      · simp [hcf] at hg
      · rfl
    simp only []
    split
    · exact notProp_guard _
    · rw [ratAbs_eq_abs, ratAbs_eq_abs, if_pos (h hc)]
      exact notProp_ok

/-- **Soundness of the first version `oraclePowFlOld` on the model's own `powi`, under explicit
    hypotheses** (see the FINDING `oraclePowFlOld_false_alarm_*` below; the repaired oracle is handled by
    `oraclePowFl_sound`):
    * `hN`: every intermediate of the by-squaring computation is a normal number;
    * `hk`: the true error count `N = powErr e` (`|e| - 1`, resp. `2|e| - 1` for `e < 0`) fits the
      oracle's tolerance, `N ≤ 2k·(1 - N·u)` with `k = 2·(log2|e| + 1) + 1` (for `u ≤ 2^-11` this holds
      for `-9 ≤ e ≤ 22`, see `powErr_fits`). -/
theorem oraclePowFlOld_sound_partial (hp : 1 ≤ f.p) (c : Fl) (e : Int) (he : e.natAbs < 2 ^ 64)
    (hN : PowNormal f c e)
    (hk : (powErr e : Rat) ≤ 2 * ((2 * (e.natAbs.log2 + 1) + 1 : Nat) : Rat) *
      (1 - (powErr e : Rat) * Uom.uro f)) :
    NotProp (oraclePowFlOld f c e (flPowi f c e)) := by
  refine oraclePowFlOld_notProp_of_le f c e _ (fun hc => ?_)
  have hA := flPowi_approx hp c hc e he hN
  rw [oracle_uro_eq] at hk ⊢
  have hu0 := uro_nonneg f
  have hu1 := uro_lt_one f hp
  have hg := Approx.abs_sub_le_gamma hu0 hu1 hA
  set N : Rat := (powErr e : Rat) with hNdef
  set k : Rat := ((2 * (e.natAbs.log2 + 1) + 1 : Nat) : Rat) with hkdef
  set d := |(flPowi f c e).toRat - c.toRat ^ e| with hd
  set a := |c.toRat ^ e| with ha
  have hN0 : 0 ≤ N := Nat.cast_nonneg _
  have hk0 : 0 < k := by rw [hkdef]; exact_mod_cast Nat.succ_pos _
  have ha0 : 0 ≤ a := abs_nonneg _
  have hd0 : 0 ≤ d := abs_nonneg _
  have hpos : 0 < 1 - N * Uom.Proofs.uro f := by
    rcases eq_or_lt_of_le hN0 with h | h
    · rw [← h]; norm_num
    · by_contra hle
      have hle' : 1 - N * Uom.Proofs.uro f ≤ 0 := not_lt.mp hle
      have : 2 * k * (1 - N * Uom.Proofs.uro f) ≤ 0 :=
        mul_nonpos_of_nonneg_of_nonpos (by positivity) hle'
      linarith
  have h1 : d * (1 - N * Uom.Proofs.uro f) ≤
      (2 * k * Uom.Proofs.uro f * a) * (1 - N * Uom.Proofs.uro f) := by
    calc d * (1 - N * Uom.Proofs.uro f) ≤ N * Uom.Proofs.uro f * a := hg
      _ ≤ (2 * k * (1 - N * Uom.Proofs.uro f)) * Uom.Proofs.uro f * a := by
          have := mul_le_mul_of_nonneg_right hk (mul_nonneg hu0 ha0)
          calc N * Uom.Proofs.uro f * a = N * (Uom.Proofs.uro f * a) := by ring
            _ ≤ 2 * k * (1 - N * Uom.Proofs.uro f) * (Uom.Proofs.uro f * a) := this
            _ = _ := by ring
      _ = _ := by ring
  exact le_of_mul_le_mul_right h1 hpos


/-- the exponents for which the oracle's tolerance covers the true error count (`p ≥ 11`): every
    exponent a dimension can realistically have -/
theorem powErr_fits (hp : 11 ≤ f.p) (e : Int) (h1 : -9 ≤ e) (h2 : e ≤ 22) :
    (powErr e : Rat) ≤ 2 * ((2 * (e.natAbs.log2 + 1) + 1 : Nat) : Rat) *
      (1 - (powErr e : Rat) * Uom.uro f) := by
  have hu : Uom.uro f ≤ 1 / 2048 := by
    rw [oracle_uro_eq]; unfold Uom.Proofs.uro
    have : (2 : Rat) ^ 11 ≤ (2 : Rat) ^ f.p := pow_le_pow_right₀ (by norm_num) hp
    rw [div_le_div_iff₀ (by positivity) (by norm_num)]
    linarith
  have hu0 : 0 ≤ Uom.uro f := by rw [oracle_uro_eq]; exact uro_nonneg f
  have key : ∀ (N k : Nat), N ≤ 21 → N + 1 ≤ 2 * k → k ≤ 11 →
      (N : Rat) ≤ 2 * (k : Rat) * (1 - (N : Rat) * Uom.uro f) := by
    intro N k hN hk hk11
    have hN' : (N : Rat) ≤ 21 := by exact_mod_cast hN
    have hk' : (N : Rat) + 1 ≤ 2 * (k : Rat) := by exact_mod_cast hk
    have hk11' : (k : Rat) ≤ 11 := by exact_mod_cast hk11
    have hN0 : (0 : Rat) ≤ N := Nat.cast_nonneg _
    have hk0 : (0 : Rat) ≤ k := Nat.cast_nonneg _
    have h3 : (k : Rat) * ((N : Rat) * Uom.uro f) ≤ 11 * (21 * (1 / 2048)) :=
      mul_le_mul hk11' (mul_le_mul hN' hu hu0 (by norm_num)) (mul_nonneg hN0 hu0) (by norm_num)
    nlinarith
  interval_cases e <;> exact key _ _ (by decide) (by decide) (by decide)

/-! ### FINDING: the tolerance of `oraclePowFlOld` (first version of `oraclePowFl`) is too small for large exponents

The oracle allows `2·k·u·|c^e|` with `k = 2·(log2|e| + 1) + 1`, the number of rounded *operations*
of exponentiation by squaring.  But the rounding error of an early square is squared again by every
later squaring: the error of `powi` grows like `(|e| - 1)·u` (`powNat_approx` is sharp up to a
constant), not like `log2|e|·u`.  From `|e| ≈ 32` on, the model's own (correctly rounded at every
step, everything normal, values in `[1, 1.04]`) result is rejected. -/

def isProp : Outcome → Bool
  | .prop _ _ => true
  | _ => false

theorem not_notProp_of_isProp {o : Outcome} (h : isProp o = true) : ¬ NotProp o := by
  intro hn
  cases o with
  | prop t w => exact hn t w rfl
  | ok => cases h
  | guard _ => cases h
  | diff _ _ => cases h

/-- binary32, `c = 0x3f800800 = 1 + 2^-12`, `e = 64` -/
theorem oraclePowFlOld_false_alarm_b32_64 :
    isProp (oraclePowFlOld b32 (Fl.ofBits b32 0x3f800800) 64
      (flPowi b32 (Fl.ofBits b32 0x3f800800) 64)) = true := by decide +kernel

/-- binary32, `c = 0x3f804f82`, `e = 32` -/
theorem oraclePowFlOld_false_alarm_b32_32 :
    isProp (oraclePowFlOld b32 (Fl.ofBits b32 1065374594) 32
      (flPowi b32 (Fl.ofBits b32 1065374594) 32)) = true := by decide +kernel

/-- binary32, negative exponent `e = -32` -/
theorem oraclePowFlOld_false_alarm_b32_neg32 :
    isProp (oraclePowFlOld b32 (Fl.ofBits b32 1065360465) (-32)
      (flPowi b32 (Fl.ofBits b32 1065360465) (-32))) = true := by decide +kernel

/-- binary64, `e = 64` -/
theorem oraclePowFlOld_false_alarm_b64_64 :
    isProp (oraclePowFlOld b64 (Fl.ofBits b64 4607202434798361538) 64
      (flPowi b64 (Fl.ofBits b64 4607202434798361538) 64)) = true := by decide +kernel

/-- the plain statement "for every canonical finite non-zero `c` and `|e| < 2^31` the oracle accepts
    the model's `powi`" is **false** -/
theorem oraclePowFlOld_plain_false :
    ¬ ∀ (c : Fl) (e : Int), Fl.Canonical b32 c → c.isFinite = true → c.isZero = false →
      e.natAbs < 2 ^ 31 → NotProp (oraclePowFlOld b32 c e (flPowi b32 c e)) := by
  intro h
  exact not_notProp_of_isProp oraclePowFlOld_false_alarm_b32_64
    (h (Fl.ofBits b32 0x3f800800) 64 (Fl.ofBits_canonical_b32 _) (by decide +kernel)
      (by decide +kernel) (by decide))

/-! ### the repaired oracle (`k = max 1 (powErr e)`) -/

/-- the repaired oracle accepts (answers `ok` on) the four inputs the first version rejected -/
theorem oraclePowFl_accepts_witnesses :
    isProp (oraclePowFl b32 (Fl.ofBits b32 0x3f800800) 64
      (flPowi b32 (Fl.ofBits b32 0x3f800800) 64)) = false ∧
    isProp (oraclePowFl b32 (Fl.ofBits b32 1065374594) 32
      (flPowi b32 (Fl.ofBits b32 1065374594) 32)) = false ∧
    isProp (oraclePowFl b32 (Fl.ofBits b32 1065360465) (-32)
      (flPowi b32 (Fl.ofBits b32 1065360465) (-32))) = false ∧
    isProp (oraclePowFl b64 (Fl.ofBits b64 4607202434798361538) 64
      (flPowi b64 (Fl.ofBits b64 4607202434798361538) 64)) = false := by
  refine ⟨?_, ?_, ?_, ?_⟩ <;> decide +kernel

/-- the shape of the repaired `oraclePowFl`: within the tolerance it does not fail -/
theorem oraclePowFl_notProp_of_le (f : Fmt) (c : Fl) (e : Int) (o : Fl)
    (h : c.isFinite = true → |o.toRat - c.toRat ^ e| ≤
      2 * ((max 1 (powErr e) : Nat) : Rat) * Uom.uro f * |c.toRat ^ e|) :
    NotProp (oraclePowFl f c e o) := by
  unfold oraclePowFl
  by_cases hg : (!(c.isFinite && o.isFinite) || c.isZero) = true
  · rw [if_pos hg]; exact notProp_guard _
  · rw [if_neg hg]
    have hc : c.isFinite = true := by
      cases hcf : c.isFinite
      · simp [hcf] at hg
      · rfl
    simp only []
    split
    · exact notProp_guard _
    · rw [ratAbs_eq_abs, ratAbs_eq_abs, if_pos (h hc)]
      exact notProp_ok

/-- **Soundness of the repaired `oraclePowFl` on the model's own `powi`.**  For every `c` (the oracle
    itself guards non-finite and zero `c`), every exponent, when every intermediate of the by-squaring
    computation is a normal number (`PowNormal`) and the error count is small against the precision
    (`powErr e · u ≤ 1/2`), the oracle does not answer `.prop`. -/
theorem oraclePowFl_sound (hp : 1 ≤ f.p) (c : Fl) (e : Int) (he : e.natAbs < 2 ^ 64)
    (hN : PowNormal f c e) (hsmall : (powErr e : Rat) * Uom.uro f ≤ 1 / 2) :
    NotProp (oraclePowFl f c e (flPowi f c e)) := by
  refine oraclePowFl_notProp_of_le f c e _ (fun hc => ?_)
  have hA := flPowi_approx hp c hc e he hN
  rw [oracle_uro_eq] at hsmall ⊢
  have hu0 := uro_nonneg f
  have hu1 := uro_lt_one f hp
  have hg := Approx.abs_sub_le_gamma hu0 hu1 hA
  have hkN : ((powErr e : Nat) : Rat) ≤ ((max 1 (powErr e) : Nat) : Rat) := by
    exact_mod_cast le_max_right 1 (powErr e)
  set N : Rat := (powErr e : Rat) with hNdef
  set k : Rat := ((max 1 (powErr e) : Nat) : Rat) with hkdef
  set d := |(flPowi f c e).toRat - c.toRat ^ e| with hd
  set a := |c.toRat ^ e| with ha
  have hN0 : 0 ≤ N := Nat.cast_nonneg _
  have ha0 : 0 ≤ a := abs_nonneg _
  have hd0 : 0 ≤ d := abs_nonneg _
  have hua : 0 ≤ Uom.Proofs.uro f * a := mul_nonneg hu0 ha0
  -- d/2 ≤ d(1 - Nu) ≤ N u a ≤ k u a
  have h1 : d * (1 / 2) ≤ d * (1 - N * Uom.Proofs.uro f) :=
    mul_le_mul_of_nonneg_left (by linarith) hd0
  have h2 : N * Uom.Proofs.uro f * a ≤ k * Uom.Proofs.uro f * a := by
    have := mul_le_mul_of_nonneg_right hkN hua
    calc N * Uom.Proofs.uro f * a = N * (Uom.Proofs.uro f * a) := by ring
      _ ≤ k * (Uom.Proofs.uro f * a) := this
      _ = _ := by ring
  linarith

theorem powErr_le (e : Int) : powErr e ≤ 2 * e.natAbs := by
  unfold powErr; split <;> omega

/-- binary32, `|e| ≤ 2^20` -/
theorem oraclePowFl_sound_b32 (c : Fl) (e : Int) (he : e.natAbs ≤ 2 ^ 20) (hN : PowNormal b32 c e) :
    NotProp (oraclePowFl b32 c e (flPowi b32 c e)) := by
  refine oraclePowFl_sound (f := b32) (by decide) c e (lt_of_le_of_lt he (by norm_num)) hN ?_
  have h1 : ((powErr e : Nat) : Rat) ≤ 2 ^ 21 := by
    have : powErr e ≤ 2 ^ 21 := le_trans (powErr_le e) (by omega)
    exact_mod_cast this
  have hu : Uom.uro b32 = 1 / 2 ^ 24 := by unfold Uom.uro; norm_num [b32]
  rw [hu]
  calc ((powErr e : Nat) : Rat) * (1 / 2 ^ 24) ≤ 2 ^ 21 * (1 / 2 ^ 24) :=
        mul_le_mul_of_nonneg_right h1 (by norm_num)
    _ ≤ 1 / 2 := by norm_num

/-- binary64, `|e| < 2^31` (every `i32` exponent) -/
theorem oraclePowFl_sound_b64 (c : Fl) (e : Int) (he : e.natAbs < 2 ^ 31) (hN : PowNormal b64 c e) :
    NotProp (oraclePowFl b64 c e (flPowi b64 c e)) := by
  refine oraclePowFl_sound (f := b64) (by decide) c e (lt_trans he (by norm_num)) hN ?_
  have h1 : ((powErr e : Nat) : Rat) ≤ 2 ^ 32 := by
    have : powErr e ≤ 2 ^ 32 := le_trans (powErr_le e) (by omega)
    exact_mod_cast this
  rw [uro_b64]
  calc ((powErr e : Nat) : Rat) * (1 / 2 ^ 53) ≤ 2 ^ 32 * (1 / 2 ^ 53) :=
        mul_le_mul_of_nonneg_right h1 (by norm_num)
    _ ≤ 1 / 2 := by norm_num

/-! ## 6. discharging `hpanic` and `hcls` of `oracleDurFl_tag_partial` -/

theorem fromBase_canonical (hf : f.WF) (coef c fac v : Fl) :
    Fl.Canonical f (fromBase (flS f) coef c fac v) := by
  rw [fromBase_flS]; split <;> exact Fl.sub_canonical hf _ _

theorem toUInt_lt {bits : Nat} {x : Fl} {n : Nat} (h : Fl.toUInt bits x = some n) : n < 2 ^ bits := by
  cases x with
  | nan => simp [Fl.toUInt] at h
  | inf s => simp [Fl.toUInt] at h
  | fin s m e =>
    simp only [Fl.toUInt] at h
    have hpos : 0 < 2 ^ bits := Nat.two_pow_pos _
    cases s
    · simp only [Bool.false_eq_true, if_false] at h
      split at h
      · injection h with h; omega
      · cases h
    · simp only [if_true] at h
      split at h
      · injection h with h; omega
      · cases h

/-- `to_u64` of a float with at most 61 significant bits is at most `2^64 - 8` -/
theorem toUInt64_le (hp61 : f.p ≤ 61) {x : Fl} (hc : Fl.Canonical f x) {n : Nat}
    (h : Fl.toUInt 64 x = some n) : n + 8 ≤ 2 ^ 64 := by
  cases x with
  | nan => simp [Fl.toUInt] at h
  | inf s => simp [Fl.toUInt] at h
  | fin s m e =>
    have hm : m < 2 ^ 61 := by
      have h61 : 2 ^ f.p ≤ 2 ^ 61 := Nat.pow_le_pow_right (by decide) hp61
      have h1 : 2 ^ (f.p - 1) ≤ 2 ^ f.p := Nat.pow_le_pow_right (by decide) (by omega)
      simp only [Fl.Canonical] at hc
      rcases hc with ⟨-, h2, -, -⟩ | ⟨h2, -⟩ <;> omega
    simp only [Fl.toUInt] at h
    cases s
    · simp only [Bool.false_eq_true, if_false] at h
      split at h
      · next hlt =>
        injection h with h
        subst h
        unfold Fl.truncMag at hlt ⊢
        by_cases he : e ≥ 0
        · simp only [he, if_true] at hlt ⊢
          by_cases hk : 3 ≤ e.toNat
          · have : 2 ^ e.toNat = 8 * 2 ^ (e.toNat - 3) := by
              rw [show (8 : Nat) = 2 ^ 3 by rfl, ← Nat.pow_add]; congr 1; omega
            rw [this] at hlt ⊢
            obtain ⟨q, hq⟩ : ∃ q, m * (8 * 2 ^ (e.toNat - 3)) = 8 * q := ⟨m * 2 ^ (e.toNat - 3), by ring⟩
            rw [hq] at hlt ⊢
            omega
          · have : 2 ^ e.toNat ≤ 2 ^ 2 := Nat.pow_le_pow_right (by decide) (by omega)
            have : m * 2 ^ e.toNat ≤ m * 4 := Nat.mul_le_mul_left m this
            omega
        · simp only [he, if_false]
          have : m / 2 ^ (-e).toNat ≤ m := Nat.div_le_self _ _
          omega
      · cases h
    · simp only [if_true] at h
      split at h
      · injection h with h; omega
      · cases h

/-- **`hpanic` discharged**: for a format with at most 61 significant bits the conversion never runs
    into the `Duration::new` overflow panic -/
theorem durOfTimeFl_ne_panic (hf : f.WF) (hp61 : f.p ≤ 61) (fac cs cn v : Fl) :
    durOfTimeFl f fac cs cn v ≠ .panic := by
  unfold durOfTimeFl
  simp only []
  split
  · intro h; cases h
  · split
    · next s n hs hn =>
      have h1 := toUInt64_le hp61 (fromBase_canonical hf _ _ _ _) hs
      have h2 := toUInt_lt hn
      unfold durationNew
      simp only []
      have : s + n / 1000000000 < 2 ^ 64 := by
        have : n / 1000000000 ≤ 4 := by omega
        omega
      rw [if_pos this]
      intro h; cases h
    · intro h; cases h

theorem mul_nonfin_left {x : Fl} (q : Fl) (hx : x.isFinite = false) :
    (Fl.mul f x q).isFinite = false := by
  cases x with
  | fin s m e => simp [Fl.isFinite] at hx
  | nan => rfl
  | inf a =>
    cases q with
    | nan => rfl
    | inf b => rfl
    | fin b m e => simp only [Fl.mul]; split <;> rfl

theorem mul_nonfin_right {q : Fl} (x : Fl) (hq : q.isFinite = false) (hx : x.isZero = false) :
    (Fl.mul f x q).isFinite = false := by
  cases q with
  | fin s m e => simp [Fl.isFinite] at hq
  | nan => cases x <;> rfl
  | inf a =>
    cases x with
    | nan => rfl
    | inf b => rfl
    | fin b m e =>
      simp only [Fl.mul]
      split
      · rfl
      · rfl

theorem div_nonfin_left {x : Fl} (q : Fl) (hx : x.isFinite = false) :
    (Fl.div f x q).isFinite = false := by
  cases x with
  | fin s m e => simp [Fl.isFinite] at hx
  | nan => rfl
  | inf a => cases q <;> rfl

theorem sub_zero_nonfin {x : Fl} (hx : x.isFinite = false) :
    (Fl.sub f x (Fl.zero f false)).isFinite = false := by
  cases x with
  | fin s m e => simp [Fl.isFinite] at hx
  | nan => rfl
  | inf a => rfl

theorem toUInt_nonfin {bits : Nat} {x : Fl} (hx : x.isFinite = false) : Fl.toUInt bits x = none := by
  cases x with
  | fin s m e => simp [Fl.isFinite] at hx
  | nan => rfl
  | inf a => rfl

/-- the seconds part decides: no `u64` seconds, `Overflow` -/
theorem durOfTimeFl_overflow_of_secs (fac cs cn v : Fl) (hlt : Fl.lt v (Fl.zero f false) = false)
    (hs : Fl.toUInt 64 (fromBase (flS f) cs (Fl.zero f false) fac v) = none) :
    durOfTimeFl f fac cs cn v = .overflow := by
  unfold durOfTimeFl
  simp only [hlt, Bool.false_eq_true, if_false]
  show (match Fl.toUInt 64 (fromBase (flS f) cs (Fl.zero f false) fac v), _ with
    | some s, some n => durationNew s n | _, _ => DurResult.overflow) = _
  rw [hs]

/-- NaN and `+∞` are answered `Overflow` -/
theorem durOfTimeFl_overflow_of_nonfin (fac cs cn v : Fl) (hlt : Fl.lt v (Fl.zero f false) = false)
    (hv : v.isFinite = false) : durOfTimeFl f fac cs cn v = .overflow := by
  refine durOfTimeFl_overflow_of_secs fac cs cn v hlt (toUInt_nonfin ?_)
  rw [fromBase_flS]
  split
  · exact sub_zero_nonfin (mul_nonfin_left _ hv)
  · exact sub_zero_nonfin (div_nonfin_left _ hv)

theorem isFinite_of_toRat_ne_zero {x : Fl} (h : x.toRat ≠ 0) : x.isFinite = true := by
  cases x with
  | fin s m e => rfl
  | nan => exact absurd rfl h
  | inf a => exact absurd rfl h

theorem maxFin_pos (hp : 1 ≤ f.p) : 0 < maxFin f := by
  rw [maxFin_eq]
  have : (2 : Rat) ^ 1 ≤ (2 : Rat) ^ f.p := pow_le_pow_right₀ (by norm_num) hp
  have h2 := two_zpow_pos f.emax
  have : (0 : Rat) < 2 ^ f.p - 1 := by linarith
  positivity

theorem toRat_le_maxFin (hf : f.WF) {x : Fl} (hc : Fl.Canonical f x) : x.toRat ≤ maxFin f := by
  have hpos := maxFin_pos (f := f) hf.hp
  cases x with
  | nan => exact hpos.le
  | inf a => exact hpos.le
  | fin s m e =>
    have hme : m < 2 ^ f.p ∧ e ≤ f.emax := by
      have h1 : 2 ^ (f.p - 1) ≤ 2 ^ f.p := Nat.pow_le_pow_right (by decide) (by omega)
      have := hf.hmin; have := hf.hmax; have := hf.hp
      simp only [Fl.Canonical] at hc
      rcases hc with ⟨-, h2, -, h3⟩ | ⟨h2, h3⟩
      · exact ⟨h2, h3⟩
      · exact ⟨by omega, by omega⟩
    rw [toRat_fin, maxFin_eq]
    have hm : (m : Rat) ≤ 2 ^ f.p - 1 := by
      have : ((m + 1 : Nat) : Rat) ≤ ((2 ^ f.p : Nat) : Rat) := Nat.cast_le.mpr hme.1
      push_cast at this; linarith
    have he : (2 : Rat) ^ e ≤ (2 : Rat) ^ f.emax := zpow_le_zpow_right₀ (by norm_num) hme.2
    have h0 : (0 : Rat) ≤ m := Nat.cast_nonneg _
    have hE := two_zpow_pos e
    have hb : (m : Rat) * (2 : Rat) ^ e ≤ (2 ^ f.p - 1) * (2 : Rat) ^ f.emax :=
      mul_le_mul hm he hE.le (by linarith)
    cases s
    · simpa [sgn] using hb
    · have : sgn true * (m : Rat) * (2 : Rat) ^ e ≤ 0 := by
        simp only [sgn, if_true]; nlinarith [mul_nonneg h0 hE.le]
      have h3 : (0 : Rat) ≤ (2 ^ f.p - 1) * (2 : Rat) ^ f.emax := le_trans (mul_nonneg h0 hE.le) hb
      linarith

theorem toUInt64_none_of_ge {x : Fl} (h : x.isFinite = true → (2 : Rat) ^ 64 ≤ x.toRat) :
    Fl.toUInt 64 x = none := by
  by_cases hfin : x.isFinite = true
  · have h0 : 0 ≤ x.toRat := le_trans (by positivity) (h hfin)
    rw [toUInt_of_nonneg 64 hfin h0, if_neg (not_lt.mpr (h hfin))]
  · exact toUInt_nonfin (by simpa using hfin)

theorem nmin_le_one (hf : f.WF) : nmin f ≤ 1 := by
  unfold nmin
  have := hf.hmin
  calc (2 : Rat) ^ (f.emin + f.p - 1) ≤ (2 : Rat) ^ (0 : Int) :=
        zpow_le_zpow_right₀ (by norm_num) (by omega)
    _ = 1 := zpow_zero _

theorem poly_2_64 {u t : Rat} (hu0 : 0 ≤ u) (hu : u ≤ 1 / 4) (ht : (2 : Rat) ^ 64 * (1 + 4 * u) ≤ t) :
    (2 : Rat) ^ 64 ≤ t * ((1 - u) * (1 - u)) ∧ 1 ≤ t * (1 - u) := by
  have h64 : (0 : Rat) < 2 ^ 64 := by positivity
  have h1 : 1 ≤ (1 + 4 * u) * ((1 - u) * (1 - u)) := by nlinarith [mul_nonneg hu0 hu0, mul_nonneg hu0 (mul_nonneg hu0 hu0)]
  have h2 : 1 ≤ (1 + 4 * u) * (1 - u) := by nlinarith [mul_nonneg hu0 hu0]
  have hp : 0 ≤ (1 - u) * (1 - u) := mul_self_nonneg _
  constructor
  · calc (2 : Rat) ^ 64 = 2 ^ 64 * 1 := by ring
      _ ≤ 2 ^ 64 * ((1 + 4 * u) * ((1 - u) * (1 - u))) := mul_le_mul_of_nonneg_left h1 h64.le
      _ = 2 ^ 64 * (1 + 4 * u) * ((1 - u) * (1 - u)) := by ring
      _ ≤ t * ((1 - u) * (1 - u)) := mul_le_mul_of_nonneg_right ht hp
  · calc (1 : Rat) ≤ 2 ^ 64 * 1 := by norm_num
      _ ≤ 2 ^ 64 * ((1 + 4 * u) * (1 - u)) := mul_le_mul_of_nonneg_left h2 h64.le
      _ = 2 ^ 64 * (1 + 4 * u) * (1 - u) := by ring
      _ ≤ t * (1 - u) := mul_le_mul_of_nonneg_right ht (by linarith)

/-- **`hcls`, third disjunct, discharged** for positive coefficients: a time of `2^64·(1+4u)` seconds or
    more is answered `Overflow` (two roundings of `from_base`; the rounded quotient is `≥ 1`) -/
theorem durOfTimeFl_overflow_of_big (hf : f.WF) (hp2 : 2 ≤ f.p) (fac cs cn v : Fl)
    (hcv : Fl.Canonical f v) (hfac : 0 < fac.toRat) (hcs : 0 < cs.toRat)
    (hlt : Fl.lt v (Fl.zero f false) = false) (hvfin : v.isFinite = true)
    (ht : ((2 ^ 64 : Nat) : Rat) * (1 + 4 * Uom.uro f) ≤ v.toRat * fac.toRat / cs.toRat) :
    durOfTimeFl f fac cs cn v = .overflow := by
  have hp := hf.hp
  refine durOfTimeFl_overflow_of_secs fac cs cn v hlt ?_
  rw [oracle_uro_eq] at ht
  have ht' : (2 : Rat) ^ 64 * (1 + 4 * Uom.Proofs.uro f) ≤ v.toRat * fac.toRat / cs.toRat := by
    have e : (((2 ^ 64 : Nat) : Nat) : Rat) = (2 : Rat) ^ 64 := by norm_num
    rwa [e] at ht
  have hu0 := uro_nonneg f
  have hu1 := uro_lt_one f hp
  have hu4 : Uom.Proofs.uro f ≤ 1 / 4 := by
    unfold Uom.Proofs.uro
    have : (2 : Rat) ^ 2 ≤ (2 : Rat) ^ f.p := pow_le_pow_right₀ (by norm_num) hp2
    rw [div_le_div_iff₀ (by positivity) (by norm_num)]; linarith
  obtain ⟨hbig, hone⟩ := poly_2_64 hu0 hu4 ht'
  set u := Uom.Proofs.uro f with hu
  set t := v.toRat * fac.toRat / cs.toRat with htdef
  have hffin := isFinite_of_toRat_ne_zero hfac.ne'
  have hcfin := isFinite_of_toRat_ne_zero hcs.ne'
  have h1u : 0 < 1 - u := by linarith
  have htpos : 0 < t := lt_of_lt_of_le (by positivity) ht'
  have hV : 0 < v.toRat := by
    by_contra hle
    have hle' : v.toRat ≤ 0 := not_lt.mp hle
    have : t ≤ 0 := by
      rw [htdef, mul_div_assoc]
      exact mul_nonpos_of_nonpos_of_nonneg hle' (div_nonneg hfac.le hcs.le)
    linarith
  have hv0 : v.isZero = false := by
    cases hz : v.isZero
    · rfl
    · exact absurd (toRat_of_isZero hz) hV.ne'
  have hnm := nmin_le_one hf
  rw [fromBase_flS]
  by_cases hbr : Fl.lt cs fac = true
  · rw [if_pos hbr, Fl.sub_poszero hf _ (Fl.mul_canonical hf _ _)]
    refine toUInt64_none_of_ge (fun hXfin => ?_)
    have hCF : cs.toRat < fac.toRat := (lt_toRat hcfin hffin).mp hbr
    have hQ1 : 1 ≤ fac.toRat / cs.toRat := by rw [le_div_iff₀ hcs]; linarith
    by_cases hqfin : (Fl.div f fac cs).isFinite = true
    · obtain ⟨⟨θ1, hq, hθ1, -⟩, -⟩ := div_approx hp hffin hcfin
        (by rw [abs_of_pos (by linarith)]; linarith) hqfin
      rw [pow_one] at hθ1
      have hVq : v.toRat * (Fl.div f fac cs).toRat = t * θ1 := by rw [hq, htdef]; ring
      have hVq1 : 1 ≤ v.toRat * (Fl.div f fac cs).toRat := by
        rw [hVq]
        exact le_trans hone (mul_le_mul_of_nonneg_left hθ1 htpos.le)
      obtain ⟨⟨θ2, hX, hθ2, -⟩, -⟩ := mul_approx hp hvfin hqfin
        (by rw [abs_of_pos (by linarith)]; linarith) hXfin
      rw [pow_one] at hθ2
      rw [hX, hVq]
      calc (2 : Rat) ^ 64 ≤ t * ((1 - u) * (1 - u)) := hbig
        _ = t * (1 - u) * (1 - u) := by ring
        _ ≤ t * θ1 * θ2 := mul_le_mul (mul_le_mul_of_nonneg_left hθ1 htpos.le) hθ2 h1u.le
            (mul_nonneg htpos.le (le_trans h1u.le hθ1))
    · have := mul_nonfin_right (f := f) v (by simpa using hqfin) hv0
      rw [this] at hXfin; cases hXfin
  · rw [if_neg hbr, Fl.sub_poszero hf _ (Fl.div_canonical hf _ _)]
    refine toUInt64_none_of_ge (fun hXfin => ?_)
    have hFC : fac.toRat ≤ cs.toRat := (lt_eq_false_toRat hcfin hffin).mp (by simpa using hbr)
    have hQ1 : 1 ≤ cs.toRat / fac.toRat := by rw [le_div_iff₀ hfac]; linarith
    have hQpos : 0 < cs.toRat / fac.toRat := by linarith
    have htQ : t = v.toRat / (cs.toRat / fac.toRat) := by
      rw [htdef]; field_simp
    by_cases hqfin : (Fl.div f cs fac).isFinite = true
    · obtain ⟨⟨θ1, hq, hθ1, hθ1'⟩, -⟩ := div_approx hp hcfin hffin
        (by rw [abs_of_pos hQpos]; linarith) hqfin
      rw [pow_one] at hθ1 hθ1'
      have hθ1pos : 0 < θ1 := lt_of_lt_of_le h1u hθ1
      have hinv : 1 - u ≤ 1 / θ1 := by rw [le_div_iff₀ hθ1pos]; linarith
      have hVq : v.toRat / (Fl.div f cs fac).toRat = t * (1 / θ1) := by
        rw [hq, htQ]; field_simp
      have hVq1 : 1 ≤ v.toRat / (Fl.div f cs fac).toRat := by
        rw [hVq]
        exact le_trans hone (mul_le_mul_of_nonneg_left hinv htpos.le)
      obtain ⟨⟨θ2, hX, hθ2, -⟩, -⟩ := div_approx hp hvfin hqfin
        (by rw [abs_of_pos (by linarith)]; linarith) hXfin
      rw [pow_one] at hθ2
      rw [hX, hVq]
      calc (2 : Rat) ^ 64 ≤ t * ((1 - u) * (1 - u)) := hbig
        _ = t * (1 - u) * (1 - u) := by ring
        _ ≤ t * (1 / θ1) * θ2 := mul_le_mul (mul_le_mul_of_nonneg_left hinv htpos.le) hθ2 h1u.le
            (mul_nonneg htpos.le (le_trans h1u.le hinv))
    · exfalso
      have hf0 : fac.isZero = false := by
        cases hz : fac.isZero
        · rfl
        · exact absurd (toRat_of_isZero hz) hfac.ne'
      have hov := div_overflow hf hcfin hffin hf0 (by simpa using hqfin)
      rw [abs_of_pos hQpos] at hov
      have hVm := toRat_le_maxFin hf hcv
      have hmpos := maxFin_pos (f := f) hp
      have : t ≤ 1 := by
        rw [htQ, div_le_one hQpos]; linarith
      have h64 : (1 : Rat) < 2 ^ 64 * (1 + 4 * u) := by
        have : (1 : Rat) < 2 ^ 64 := by norm_num
        nlinarith
      linarith

/-- **The tag theorem with only the text round trip left.**  Any base unit other than the second,
    positive finite coefficients (`fac`, `cs` as rationals `> 0`), canonical stored value, a format with
    `2 ≤ p ≤ 61`: on the model's own answer the oracle can only fail with the recorded finding `dur.F4`. -/
theorem oracleDurFl_tag (hf : f.WF) (hp2 : 2 ≤ f.p) (hp61 : f.p ≤ 61) (fac cs cn v : Fl)
    (hcv : Fl.Canonical f v) (hfac : 0 < fac.toRat) (hcs : 0 < cs.toRat)
    (hsb : Fl.cmp fac cs ≠ some 0)
    (hrt : ∀ s n, durOfTimeFl f fac cs cn v = .ok s n → OkTextRT s n)
    (tag why : String)
    (h : oracleDurFl f fac cs cn v (durOfTimeFl f fac cs cn v).show
      (durOfTimeFl f fac cs cn v).show = .prop tag why) : tag = "dur.F4" := by
  refine oracleDurFl_tag_partial f fac cs cn v hsb (durOfTimeFl_ne_panic hf hp61 fac cs cn v) hrt ?_
    tag why h
  intro hlt hc
  by_cases hfin : v.isFinite = true
  · rcases hc with hnan | hnf | hbig
    · cases v <;> simp_all [Fl.isFinite, Fl.isNan]
    · rw [hfin] at hnf; cases hnf
    · exact durOfTimeFl_overflow_of_big hf hp2 fac cs cn v hcv hfac hcs hlt hfin hbig
  · exact durOfTimeFl_overflow_of_nonfin fac cs cn v hlt (by simpa using hfin)

end Uom.DurPowOracleSound

#print axioms Uom.DurPowOracleSound.oracleDurFl_sound_second_b64
#print axioms Uom.DurPowOracleSound.oracleDurFl_tag_partial
#print axioms Uom.DurPowOracleSound.powNat_approx
#print axioms Uom.DurPowOracleSound.flPowi_approx
#print axioms Uom.DurPowOracleSound.oraclePowFlOld_sound_partial
#print axioms Uom.DurPowOracleSound.powErr_fits
#print axioms Uom.DurPowOracleSound.oraclePowFlOld_plain_false
#print axioms Uom.DurPowOracleSound.oraclePowFl_accepts_witnesses
#print axioms Uom.DurPowOracleSound.oraclePowFl_sound
#print axioms Uom.DurPowOracleSound.oraclePowFl_sound_b32
#print axioms Uom.DurPowOracleSound.oraclePowFl_sound_b64
#print axioms Uom.DurPowOracleSound.durOfTimeFl_ne_panic
#print axioms Uom.DurPowOracleSound.durOfTimeFl_overflow_of_big
#print axioms Uom.DurPowOracleSound.oracleDurFl_tag
