import Uom.Model.Conv
import Mathlib.Tactic.Ring
import Mathlib.Tactic.FieldSimp
import Mathlib.Tactic.Linarith
import Mathlib.Algebra.Order.Field.Basic
import Mathlib.Data.Rat.Defs
/-!
# Exact-storage facts about the conversion kernel (`ratS`: V = T = ℚ)

With exact rational storage both branches of `to_base` / `from_base` / `change_base` compute the
same field expression, so the branch condition is irrelevant.
-/
namespace Uom

theorem toBase_rat (coef c f v : Rat) :
    toBase ratS coef c f v = (v + c) * coef / f := by
  unfold toBase
  simp only [ratS, id]
  split <;> ring

theorem fromBase_rat (coef c f v : Rat) :
    fromBase ratS coef c f v = v * f / coef - c := by
  unfold fromBase
  simp only [ratS, id]
  split
  · ring
  · by_cases hc : coef = 0
    · subst hc; simp
    · by_cases hf : f = 0
      · subst hf; simp
      · field_simp

theorem changeBase_rat (l r v : Rat) :
    changeBase ratS l r v = v * r / l := by
  unfold changeBase
  simp only [ratS, id]
  by_cases h : l ≤ r <;> simp [h]
  · ring
  · by_cases hl : l = 0
    · subst hl; simp
    · by_cases hr : r = 0
      · subst hr; simp
      · field_simp

theorem roundtrip_rat (coef c f v : Rat) (hc : coef ≠ 0) (hf : f ≠ 0) :
    fromBase ratS coef c f (toBase ratS coef c f v) = v := by
  rw [toBase_rat, fromBase_rat]
  field_simp
  ring

theorem roundtrip_rat' (coef c f s : Rat) (hc : coef ≠ 0) (hf : f ≠ 0) :
    toBase ratS coef c f (fromBase ratS coef c f s) = s := by
  rw [toBase_rat, fromBase_rat]
  field_simp
  ring

/-- product of the per-base-quantity powers: the base factor over exact storage -/
theorem baseFactor_rat (ps : List Rat) : baseFactor ratS ps = ps.prod := by
  unfold baseFactor
  simp only [ratS]
  have h : ∀ (a : Rat) (l : List Rat), List.foldl (fun x y => x * y) a l = a * l.prod := by
    intro a l
    induction l generalizing a with
    | nil => simp
    | cons x xs ih => simp [List.foldl_cons, ih, mul_assoc]
  rw [h]; ring

end Uom
