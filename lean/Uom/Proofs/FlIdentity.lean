import Uom.Model.SoftFloat
/-!
# Bit-exact identity laws of the soft-float model

`x + (−0) = x`, `x − (+0) = x`, `x * 1 = x`, `x / 1 = x`, `c / c = 1` for every canonical value of a
well-formed format.  Core Lean only.
-/
namespace Uom

/-- well-formedness of a format: at least one bit of precision and `1.0` is a normal number -/
structure Fmt.WF (f : Fmt) : Prop where
  hp : 1 ≤ f.p
  hmin : f.emin ≤ -(f.p : Int) + 1
  hmax : 0 ≤ f.emax

theorem b64_wf : b64.WF := by constructor <;> decide
theorem b32_wf : b32.WF := by constructor <;> decide

namespace Fl

theorem log2_mul_pow (m k : Nat) (hm : m ≠ 0) : (m * 2 ^ k).log2 = m.log2 + k := by
  have hne : m * 2 ^ k ≠ 0 := Nat.mul_ne_zero hm (Nat.pos_iff_ne_zero.mp (Nat.two_pow_pos k))
  rw [Nat.log2_eq_iff hne]
  constructor
  · rw [Nat.pow_add]; exact Nat.mul_le_mul_right _ (Nat.log2_self_le hm)
  · have : m < 2 ^ (m.log2 + 1) := Nat.lt_log2_self
    calc m * 2 ^ k < 2 ^ (m.log2 + 1) * 2 ^ k := Nat.mul_lt_mul_of_pos_right this (Nat.two_pow_pos k)
      _ = 2 ^ (m.log2 + k + 1) := by rw [← Nat.pow_add]; congr 1; omega

/-- Core rounding lemma: a significand of at most `p` bits whose exponent is in range and which is
    either full-width (normal) or sits at `emin` (subnormal), scaled by `2^k`, rounds to itself. -/
theorem roundDy_exact (f : Fmt) (s : Bool) (m : Nat) (e : Int) (k : Nat)
    (hm0 : m ≠ 0) (hL : m.log2 + 1 ≤ f.p) (he : f.emin ≤ e) (he' : e ≤ f.emax)
    (hcan : m.log2 + 1 = f.p ∨ e = f.emin) :
    roundDy f s (m * 2 ^ k) (e - k) = .fin s m e := by
  have hmlt : m < 2 ^ f.p :=
    Nat.lt_of_lt_of_le Nat.lt_log2_self (Nat.pow_le_pow_right (by decide) hL)
  unfold roundDy
  simp only [log2_mul_pow m k hm0]
  have hsh : max (((m.log2 + k : Nat) : Int) + 1 - (f.p : Int)) (f.emin - (e - (k : Int))) = (k : Int) := by
    omega
  rw [hsh]
  by_cases hk : k = 0
  · subst hk
    have hmin : min ((f.p : Int) - (((m.log2 + 0 : Nat) : Int) + 1)) (e - (0 : Nat) - f.emin) = 0 := by
      omega
    simp only [hmin]
    simp
    omega
  · have hkpos : ¬ ((k : Int) ≤ 0) := by omega
    simp only [hkpos, if_false, Int.toNat_natCast]
    have hq : m * 2 ^ k / 2 ^ k = m := Nat.mul_div_cancel _ (Nat.two_pow_pos k)
    have hr : m * 2 ^ k % 2 ^ k = 0 := Nat.mul_mod_left _ _
    simp only [hq, hr]
    have h2k : 0 < 2 ^ k := Nat.two_pow_pos k
    have hup : (decide (2 * 0 > 2 ^ k) || (decide (2 * 0 = 2 ^ k) && decide (m % 2 = 1))) = false := by
      simp; omega
    simp only [hup]
    have hne : m ≠ 2 ^ f.p := by omega
    have hee : e - (k : Int) + (k : Int) = e := by omega
    have hnot : ¬ (e > f.emax) := by omega
    simp [hne, hee, hnot]

variable {f : Fmt}

theorem canonical_fin_iff (s : Bool) (m : Nat) (e : Int) :
    Canonical f (fin s m e) ↔
      ((2 ^ (f.p - 1) ≤ m ∧ m < 2 ^ f.p ∧ f.emin ≤ e ∧ e ≤ f.emax) ∨ (m < 2 ^ (f.p - 1) ∧ e = f.emin)) :=
  Iff.rfl

theorem canonical_emin_le {s : Bool} {m : Nat} {e : Int} (hc : Canonical f (fin s m e)) :
    f.emin ≤ e := by
  rcases (canonical_fin_iff s m e).mp hc with ⟨_, _, he, _⟩ | ⟨_, he⟩ <;> omega

theorem canonical_zero_exp {s : Bool} {e : Int} (hc : Canonical f (fin s 0 e)) : e = f.emin := by
  rcases (canonical_fin_iff s 0 e).mp hc with ⟨hlo, _, _, _⟩ | ⟨_, he⟩
  · have : 0 < 2 ^ (f.p - 1) := Nat.two_pow_pos _
    omega
  · exact he

theorem canonical_log2_lt (hf : f.WF) {s : Bool} {m : Nat} {e : Int} (hc : Canonical f (fin s m e))
    (hm : m ≠ 0) : m.log2 + 1 ≤ f.p := by
  have hp := hf.hp
  rcases (canonical_fin_iff s m e).mp hc with ⟨_, hhi, _, _⟩ | ⟨hlt, _⟩
  · have := (Nat.log2_lt hm).mpr hhi
    omega
  · have := (Nat.log2_lt hm).mpr hlt
    omega

/-- 1. rounding a (scaled) canonical nonzero value gives it back, normal and subnormal alike -/
theorem roundDy_canonical (hf : f.WF) (s : Bool) (m : Nat) (e : Int) (k : Nat)
    (hc : Canonical f (fin s m e)) (hm : m ≠ 0) :
    roundDy f s (m * 2 ^ k) (e - k) = fin s m e := by
  have hp := hf.hp
  have hmin := hf.hmin
  have hmax := hf.hmax
  have hL := canonical_log2_lt hf hc hm
  rcases (canonical_fin_iff s m e).mp hc with ⟨hlo, hhi, he, he'⟩ | ⟨hlt, he⟩
  · refine roundDy_exact f s m e k hm hL he he' (Or.inl ?_)
    have := (Nat.le_log2 hm).mpr hlo
    omega
  · exact roundDy_exact f s m e k hm hL (by omega) (by omega) (Or.inr he)

/-- 7. `1.0` is canonical -/
theorem one_canonical (hf : f.WF) : Canonical f (one f) := by
  have hp := hf.hp
  have hmin := hf.hmin
  have hmax := hf.hmax
  refine (canonical_fin_iff _ _ _).mpr (Or.inl ⟨Nat.le_refl _, ?_, ?_, ?_⟩)
  · exact Nat.pow_lt_pow_right (by decide) (by omega)
  · omega
  · omega

theorem zero_canonical (s : Bool) : Canonical f (zero f s) :=
  (canonical_fin_iff _ _ _).mpr (Or.inr ⟨Nat.two_pow_pos _, rfl⟩)

theorem roundInt_sval (s : Bool) (M : Nat) (E : Int) (z : Bool) (hM : M ≠ 0) :
    roundInt f (sval s M) E z = roundDy f s M E := by
  unfold roundInt sval
  cases s
  · have h1 : ¬ ((M : Int) = 0) := by omega
    have h2 : ¬ ((M : Int) < 0) := by omega
    simp only [Bool.false_eq_true, if_false, if_neg h1, decide_eq_false h2, Int.natAbs_natCast]
  · have h1 : ¬ (-(M : Int) = 0) := by omega
    have h2 : (-(M : Int) < 0) := by omega
    simp only [if_true, if_neg h1, decide_eq_true h2, Int.natAbs_neg, Int.natAbs_natCast]

/-- 2. `x + (−0.0) = x`, bit-exact, for every canonical `x` -/
theorem add_negzero (hf : f.WF) (x : Fl) (hx : Canonical f x) : add f x (zero f true) = x := by
  cases x with
  | nan => rfl
  | inf a => rfl
  | fin s m e =>
    have hemin : f.emin ≤ e := canonical_emin_le hx
    have hmn : min e f.emin = f.emin := by omega
    simp only [zero, add, hmn]
    by_cases hm : m = 0
    · subst hm
      have he : e = f.emin := canonical_zero_exp hx
      subst he
      simp [roundInt, sval, zero]
    · have hz : sval true (0 * 2 ^ (f.emin - f.emin).toNat) = 0 := by simp [sval]
      rw [hz, Int.add_zero]
      have hM : m * 2 ^ (e - f.emin).toNat ≠ 0 :=
        Nat.mul_ne_zero hm (Nat.pos_iff_ne_zero.mp (Nat.two_pow_pos _))
      rw [roundInt_sval _ _ _ _ hM]
      have hE : f.emin = e - ((e - f.emin).toNat : Int) := by omega
      have := roundDy_canonical hf s m e (e - f.emin).toNat hx hm
      rw [← hE] at this
      exact this

/-- 3. `x − (+0.0) = x` -/
theorem sub_poszero (hf : f.WF) (x : Fl) (hx : Canonical f x) : sub f x (zero f false) = x :=
  add_negzero hf x hx

/-- 4. `x * 1.0 = x` -/
theorem mul_one (hf : f.WF) (x : Fl) (hx : Canonical f x) : mul f x (one f) = x := by
  have hp := hf.hp
  have h2 : 2 ^ (f.p - 1) ≠ 0 := Nat.pos_iff_ne_zero.mp (Nat.two_pow_pos _)
  cases x with
  | nan => rfl
  | inf a => simp [one, mul]
  | fin s m e =>
    simp only [one, mul, Bool.bne_false]
    by_cases hm : m = 0
    · subst hm
      have he : e = f.emin := canonical_zero_exp hx
      subst he
      simp [zero]
    · have hM : m * 2 ^ (f.p - 1) ≠ 0 := Nat.mul_ne_zero hm h2
      rw [if_neg hM]
      have hE : e + -((f.p : Int) - 1) = e - ((f.p - 1 : Nat) : Int) := by omega
      rw [hE]
      exact roundDy_canonical hf s m e (f.p - 1) hx hm

/-- `n / 2^(p-1)` as computed by `divDy`, for an `n` of at most `p` bits: exact, no sticky bit -/
theorem divDy_one (p m : Nat) (hp : 1 ≤ p) (hL : m.log2 + 1 ≤ p) :
    divDy p m (2 ^ (p - 1)) =
      (m * 2 ^ (p + 3 - m.log2), -((p + 3 - m.log2 : Nat) : Int) - ((p : Int) - 1)) := by
  unfold divDy
  simp only [Nat.log2_two_pow]
  have hk : p + 2 + (p - 1 + 1) - (m.log2 + 1) = (p + 2 - m.log2) + (p - 1) := by omega
  have hj : p + 3 - m.log2 = (p + 2 - m.log2) + 1 := by omega
  rw [hk, hj, Nat.pow_add, ← Nat.mul_assoc, Nat.mul_div_cancel _ (Nat.two_pow_pos _),
    Nat.mul_mod_left, Nat.pow_succ]
  simp only [if_true]
  refine Prod.ext ?_ ?_
  · simp only [Nat.add_zero]; ac_rfl
  · simp only; omega

/-- 5. `x / 1.0 = x` -/
theorem div_one (hf : f.WF) (x : Fl) (hx : Canonical f x) : div f x (one f) = x := by
  have hp := hf.hp
  have h2 : 2 ^ (f.p - 1) ≠ 0 := Nat.pos_iff_ne_zero.mp (Nat.two_pow_pos _)
  cases x with
  | nan => rfl
  | inf a => simp [one, div]
  | fin s m e =>
    simp only [one, div, Bool.bne_false, if_neg h2]
    by_cases hm : m = 0
    · subst hm
      have he : e = f.emin := canonical_zero_exp hx
      subst he
      simp [zero]
    · rw [if_neg hm, divDy_one f.p m hp (canonical_log2_lt hf hx hm)]
      simp only
      have hE : e - -((f.p : Int) - 1) + (-((f.p + 3 - m.log2 : Nat) : Int) - ((f.p : Int) - 1))
          = e - ((f.p + 3 - m.log2 : Nat) : Int) := by omega
      rw [hE]
      exact roundDy_canonical hf s m e _ hx hm

theorem divDy_self (p m : Nat) (hm : m ≠ 0) :
    divDy p m m = (2 * 2 ^ (p + 2), -((p + 2 : Nat) : Int) - 1) := by
  have hk : p + 2 + (m.log2 + 1) - (m.log2 + 1) = p + 2 := by omega
  simp only [divDy, hk, Nat.mul_div_cancel_left _ (Nat.pos_of_ne_zero hm), Nat.mul_mod_right,
    if_true, Nat.add_zero]

/-- 6. `c / c = 1.0` for every finite nonzero canonical `c` -/
theorem div_self (hf : f.WF) (s : Bool) (m : Nat) (e : Int)
    (hm : m ≠ 0) : div f (fin s m e) (fin s m e) = one f := by
  have hp := hf.hp
  simp only [div, if_neg hm, divDy_self f.p m hm, bne_self_eq_false]
  have hM : 2 * 2 ^ (f.p + 2) = 2 ^ (f.p - 1) * 2 ^ 4 := by
    rw [← Nat.pow_succ', ← Nat.pow_add]; congr 1; omega
  have hE : e - e + (-((f.p + 2 : Nat) : Int) - 1) = -((f.p : Int) - 1) - ((4 : Nat) : Int) := by omega
  rw [hM, hE]
  exact roundDy_canonical hf false (2 ^ (f.p - 1)) (-((f.p : Int) - 1)) 4 (one_canonical hf)
    (Nat.pos_iff_ne_zero.mp (Nat.two_pow_pos _))

end Fl
end Uom

#print axioms Uom.b64_wf
#print axioms Uom.b32_wf
#print axioms Uom.Fl.roundDy_canonical
#print axioms Uom.Fl.one_canonical
#print axioms Uom.Fl.add_negzero
#print axioms Uom.Fl.sub_poszero
#print axioms Uom.Fl.mul_one
#print axioms Uom.Fl.div_one
#print axioms Uom.Fl.div_self
