import Uom.Model.SoftFloat
import Uom.Proofs.FlIdentity
/-!
# Closure of canonical form

Every rounding (`roundDy`, `roundInt`), every arithmetic operation (`add`, `sub`, `mul`, `div`,
`fma`, `neg`, `abs`) and the decoder `ofBits` return a value in canonical form.  Core Lean only.
-/
namespace Uom

/-- IEEE relation between the exponent range and the width of the exponent field -/
theorem b64_exp : b64.emax = b64.emin + ((2 ^ (b64.w - b64.p) : Nat) : Int) - 3 := by decide
theorem b32_exp : b32.emax = b32.emin + ((2 ^ (b32.w - b32.p) : Nat) : Int) - 3 := by decide

namespace Fl

variable {f : Fmt}

/-! ### arithmetic helpers -/

theorem two_pow_pred_lt (p : Nat) (hp : 1 ≤ p) : 2 ^ (p - 1) < 2 ^ p :=
  Nat.pow_lt_pow_right (by decide) (by omega)

/-- `M · 2^k` has `log2 M + 1 + k` bits: upper bound -/
theorem mul_pow_lt (M k t : Nat) (h : M.log2 + 1 + k ≤ t) : M * 2 ^ k < 2 ^ t := by
  have h1 : M < 2 ^ (M.log2 + 1) := Nat.lt_log2_self
  have h2 : M * 2 ^ k < 2 ^ (M.log2 + 1) * 2 ^ k :=
    Nat.mul_lt_mul_of_pos_right h1 (Nat.two_pow_pos k)
  rw [← Nat.pow_add] at h2
  exact Nat.lt_of_lt_of_le h2 (Nat.pow_le_pow_right (by decide) h)

/-- `M · 2^k` has `log2 M + 1 + k` bits: lower bound -/
theorem le_mul_pow (M k t : Nat) (hM : M ≠ 0) (h : t ≤ M.log2 + k) : 2 ^ t ≤ M * 2 ^ k := by
  have h1 : 2 ^ M.log2 ≤ M := Nat.log2_self_le hM
  have h2 : 2 ^ M.log2 * 2 ^ k ≤ M * 2 ^ k := Nat.mul_le_mul_right _ h1
  rw [← Nat.pow_add] at h2
  exact Nat.le_trans (Nat.pow_le_pow_right (by decide) h) h2

/-- dropping `n` low bits of `M` leaves fewer than `p + 1` bits when `bits M ≤ p + n` -/
theorem div_pow_lt (M n p : Nat) (h : M.log2 + 1 ≤ p + n) : M / 2 ^ n < 2 ^ p := by
  rw [Nat.div_lt_iff_lt_mul (Nat.two_pow_pos n), ← Nat.pow_add]
  exact Nat.lt_of_lt_of_le Nat.lt_log2_self (Nat.pow_le_pow_right (by decide) h)

/-- dropping `n` low bits of `M` leaves exactly `p` bits when `bits M = p + n` -/
theorem le_div_pow (M n p : Nat) (hM : M ≠ 0) (hp : 1 ≤ p) (h : M.log2 + 1 = p + n) :
    2 ^ (p - 1) ≤ M / 2 ^ n := by
  rw [Nat.le_div_iff_mul_le (Nat.two_pow_pos n), ← Nat.pow_add]
  exact Nat.le_trans (Nat.pow_le_pow_right (by decide) (by omega)) (Nat.log2_self_le hM)

/-! ### 1. `roundDy` -/

/-- exact branch of `roundDy` -/
theorem exact_canonical (s : Bool) (M : Nat) (E : Int) (kn : Nat) (hM : M ≠ 0)
    (hk1 : M.log2 + 1 + kn ≤ f.p) (hk2 : (kn : Int) ≤ E - f.emin)
    (hor : M.log2 + 1 + kn = f.p ∨ (kn : Int) = E - f.emin) (hmax : E - (kn : Int) ≤ f.emax) :
    Canonical f (fin s (M * 2 ^ kn) (E - (kn : Int))) := by
  rw [canonical_fin_iff]
  by_cases hfull : M.log2 + 1 + kn = f.p
  · left
    refine ⟨le_mul_pow M kn _ hM (by omega), mul_pow_lt M kn _ (by omega), by omega, hmax⟩
  · right
    refine ⟨mul_pow_lt M kn _ (by omega), by omega⟩

/-- rounding branch of `roundDy`, after the significand `m ∈ {q, q+1}` has been chosen -/
theorem round_canonical (hp : 1 ≤ f.p) (s : Bool) (M : Nat) (E : Int) (n m : Nat) (hM : M ≠ 0)
    (hn1 : M.log2 + 1 ≤ f.p + n) (hn2 : f.emin ≤ E + (n : Int))
    (hor : M.log2 + 1 = f.p + n ∨ E + (n : Int) = f.emin)
    (hm : m = M / 2 ^ n ∨ m = M / 2 ^ n + 1) :
    Canonical f
      (if m = 2 ^ f.p then
        (if E + (n : Int) + 1 > f.emax then inf s else fin s (2 ^ (f.p - 1)) (E + (n : Int) + 1))
      else
        (if E + (n : Int) > f.emax then inf s else fin s m (E + (n : Int)))) := by
  have hq : M / 2 ^ n < 2 ^ f.p := div_pow_lt M n f.p hn1
  by_cases hc : m = 2 ^ f.p
  · rw [if_pos hc]
    by_cases he : E + (n : Int) + 1 > f.emax
    · rw [if_pos he]; trivial
    · rw [if_neg he, canonical_fin_iff]
      left
      exact ⟨Nat.le_refl _, two_pow_pred_lt f.p hp, by omega, by omega⟩
  · rw [if_neg hc]
    by_cases he : E + (n : Int) > f.emax
    · rw [if_pos he]; trivial
    · rw [if_neg he, canonical_fin_iff]
      have hmlt : m < 2 ^ f.p := by omega
      by_cases hlo : 2 ^ (f.p - 1) ≤ m
      · left; exact ⟨hlo, hmlt, hn2, by omega⟩
      · right
        refine ⟨by omega, ?_⟩
        rcases hor with hfull | hmin
        · have := le_div_pow M n f.p hM hp hfull
          omega
        · exact hmin

/-- 1. every rounding of a nonzero exact dyadic is canonical -/
theorem roundDy_canonical_out (hf : f.WF) (s : Bool) (M : Nat) (E : Int) (hM : M ≠ 0) :
    Canonical f (roundDy f s M E) := by
  have hp := hf.hp
  unfold roundDy
  simp only []
  by_cases hsh : max (((M.log2 : Nat) : Int) + 1 - (f.p : Int)) (f.emin - E) ≤ 0
  · rw [if_pos hsh]
    have hk : ∃ kn : Nat, min ((f.p : Int) - (((M.log2 : Nat) : Int) + 1)) (E - f.emin) = (kn : Int) :=
      ⟨(min ((f.p : Int) - (((M.log2 : Nat) : Int) + 1)) (E - f.emin)).toNat, by omega⟩
    obtain ⟨kn, hkn⟩ := hk
    rw [hkn]
    by_cases he : E - (kn : Int) > f.emax
    · rw [if_pos he]; trivial
    · rw [if_neg he, Int.toNat_natCast]
      exact exact_canonical s M E kn hM (by omega) (by omega) (by omega) (by omega)
  · rw [if_neg hsh]
    have hn : ∃ n : Nat, max (((M.log2 : Nat) : Int) + 1 - (f.p : Int)) (f.emin - E) = (n : Int) :=
      ⟨(max (((M.log2 : Nat) : Int) + 1 - (f.p : Int)) (f.emin - E)).toNat, by omega⟩
    obtain ⟨n, hn⟩ := hn
    rw [hn, Int.toNat_natCast]
    refine round_canonical hp s M E n _ hM (by omega) (by omega) (by omega) ?_
    by_cases hup : (decide (2 * (M % 2 ^ n) > 2 ^ n) ||
        (decide (2 * (M % 2 ^ n) = 2 ^ n) && decide (M / 2 ^ n % 2 = 1))) = true
    · rw [if_pos hup]; right; rfl
    · rw [if_neg hup]; left; rfl

/-! ### 2. `roundInt` -/

theorem roundInt_canonical (hf : f.WF) (v : Int) (E : Int) (zneg : Bool) :
    Canonical f (roundInt f v E zneg) := by
  unfold roundInt
  by_cases hv : v = 0
  · rw [if_pos hv]; exact zero_canonical zneg
  · rw [if_neg hv]; exact roundDy_canonical_out hf _ _ _ (by omega)

/-! ### 3. arithmetic -/

theorem nan_canonical : Canonical f nan := trivial
theorem inf_canonical (s : Bool) : Canonical f (inf s) := trivial

theorem neg_canonical (x : Fl) (hx : Canonical f x) : Canonical f (neg x) := by
  cases x with
  | nan => trivial
  | inf a => trivial
  | fin s m e => exact hx

theorem abs_canonical (x : Fl) (hx : Canonical f x) : Canonical f (abs x) := by
  cases x with
  | nan => trivial
  | inf a => trivial
  | fin s m e => exact hx

theorem add_canonical (hf : f.WF) (x y : Fl) : Canonical f (add f x y) := by
  cases x with
  | nan => cases y <;> trivial
  | inf a =>
    cases y with
    | nan => trivial
    | inf b =>
      show Canonical f (if a = b then inf a else nan)
      by_cases h : a = b
      · rw [if_pos h]; trivial
      · rw [if_neg h]; trivial
    | fin s2 m2 e2 => trivial
  | fin s1 m1 e1 =>
    cases y with
    | nan => trivial
    | inf b => trivial
    | fin s2 m2 e2 => exact roundInt_canonical hf _ _ _

theorem sub_canonical (hf : f.WF) (x y : Fl) : Canonical f (sub f x y) :=
  add_canonical hf x (neg y)

theorem mul_canonical (hf : f.WF) (x y : Fl) : Canonical f (mul f x y) := by
  cases x with
  | nan => cases y <;> trivial
  | inf a =>
    cases y with
    | nan => trivial
    | inf b => trivial
    | fin s2 m2 e2 =>
      show Canonical f (if m2 = 0 then nan else inf (a != s2))
      by_cases h : m2 = 0
      · rw [if_pos h]; trivial
      · rw [if_neg h]; trivial
  | fin s1 m1 e1 =>
    cases y with
    | nan => trivial
    | inf b =>
      show Canonical f (if m1 = 0 then nan else inf (s1 != b))
      by_cases h : m1 = 0
      · rw [if_pos h]; trivial
      · rw [if_neg h]; trivial
    | fin s2 m2 e2 =>
      show Canonical f (if m1 * m2 = 0 then zero f (s1 != s2)
        else roundDy f (s1 != s2) (m1 * m2) (e1 + e2))
      by_cases h : m1 * m2 = 0
      · rw [if_pos h]; exact zero_canonical _
      · rw [if_neg h]; exact roundDy_canonical_out hf _ _ _ h

/-- the significand produced by `divDy` is nonzero (quotient bit or sticky bit) -/
theorem divDy_fst_ne_zero (p n d : Nat) (hn : n ≠ 0) : (divDy p n d).1 ≠ 0 := by
  unfold divDy
  simp only []
  have hnum : n * 2 ^ (p + 2 + (d.log2 + 1) - (n.log2 + 1)) ≠ 0 :=
    Nat.mul_ne_zero hn (Nat.pos_iff_ne_zero.mp (Nat.two_pow_pos _))
  generalize n * 2 ^ (p + 2 + (d.log2 + 1) - (n.log2 + 1)) = num at hnum
  by_cases hr : num % d = 0
  · rw [if_pos hr]
    have hq : num / d ≠ 0 := by
      intro hq
      have := Nat.div_add_mod num d
      rw [hq, hr] at this
      simp at this
      exact hnum this.symm
    omega
  · rw [if_neg hr]; omega

theorem div_canonical (hf : f.WF) (x y : Fl) : Canonical f (div f x y) := by
  cases x with
  | nan => cases y <;> trivial
  | inf a => cases y <;> trivial
  | fin s1 m1 e1 =>
    cases y with
    | nan => trivial
    | inf b => exact zero_canonical _
    | fin s2 m2 e2 =>
      show Canonical f (if m2 = 0 then (if m1 = 0 then nan else inf (s1 != s2))
        else if m1 = 0 then zero f (s1 != s2)
        else roundDy f (s1 != s2) (divDy f.p m1 m2).1 (e1 - e2 + (divDy f.p m1 m2).2))
      by_cases h2 : m2 = 0
      · rw [if_pos h2]
        by_cases h1 : m1 = 0
        · rw [if_pos h1]; trivial
        · rw [if_neg h1]; trivial
      · rw [if_neg h2]
        by_cases h1 : m1 = 0
        · rw [if_pos h1]; exact zero_canonical _
        · rw [if_neg h1]
          exact roundDy_canonical_out hf _ _ _ (divDy_fst_ne_zero f.p m1 m2 h1)

theorem fma_inf_aux (a b : Bool) (z : Fl) :
    Canonical f (match z with
      | inf c => if (a != b) = c then inf c else nan
      | _ => inf (a != b)) := by
  cases z with
  | nan => trivial
  | inf c =>
    show Canonical f (if (a != b) = c then inf c else nan)
    by_cases h : (a != b) = c
    · rw [if_pos h]; trivial
    · rw [if_neg h]; trivial
  | fin s m e => trivial

theorem fma_canonical (hf : f.WF) (x y z : Fl) : Canonical f (fma f x y z) := by
  cases x with
  | nan => cases y <;> cases z <;> trivial
  | inf a =>
    cases y with
    | nan => cases z <;> trivial
    | inf b =>
      cases z with
      | nan => trivial
      | inf c => exact fma_inf_aux a b (inf c)
      | fin s3 m3 e3 => exact fma_inf_aux a b (fin s3 m3 e3)
    | fin s2 m2 e2 =>
      cases z with
      | nan => trivial
      | inf c =>
        show Canonical f (if m2 = 0 then nan else _)
        by_cases h : m2 = 0
        · rw [if_pos h]; trivial
        · rw [if_neg h]; exact fma_inf_aux a s2 (inf c)
      | fin s3 m3 e3 =>
        show Canonical f (if m2 = 0 then nan else _)
        by_cases h : m2 = 0
        · rw [if_pos h]; trivial
        · rw [if_neg h]; exact fma_inf_aux a s2 (fin s3 m3 e3)
  | fin s1 m1 e1 =>
    cases y with
    | nan => cases z <;> trivial
    | inf b =>
      cases z with
      | nan => trivial
      | inf c =>
        show Canonical f (if m1 = 0 then nan else _)
        by_cases h : m1 = 0
        · rw [if_pos h]; trivial
        · rw [if_neg h]; exact fma_inf_aux s1 b (inf c)
      | fin s3 m3 e3 =>
        show Canonical f (if m1 = 0 then nan else _)
        by_cases h : m1 = 0
        · rw [if_pos h]; trivial
        · rw [if_neg h]; exact fma_inf_aux s1 b (fin s3 m3 e3)
    | fin s2 m2 e2 =>
      cases z with
      | nan => trivial
      | inf c => trivial
      | fin s3 m3 e3 => exact roundInt_canonical hf _ _ _

/-! ### further constructors built from `roundDy` -/

theorem recip_canonical (hf : f.WF) (x : Fl) : Canonical f (recip f x) :=
  div_canonical hf _ _

theorem roundQ_canonical (hf : f.WF) (s : Bool) (n d : Nat) : Canonical f (roundQ f s n d) := by
  show Canonical f (if n = 0 then zero f s
    else roundDy f s (divDy f.p n d).1 (divDy f.p n d).2)
  by_cases h : n = 0
  · rw [if_pos h]; exact zero_canonical _
  · rw [if_neg h]; exact roundDy_canonical_out hf _ _ _ (divDy_fst_ne_zero f.p n d h)

/-- every decimal literal parses to a canonical value -/
theorem ofDecimal_canonical (hf : f.WF) (m : Nat) (e10 : Int) :
    Canonical f (ofDecimal f m e10) := by
  unfold ofDecimal
  by_cases h : e10 ≥ 0
  · rw [if_pos h]; exact roundQ_canonical hf _ _ _
  · rw [if_neg h]; exact roundQ_canonical hf _ _ _

theorem ofNatSigned_canonical (hf : f.WF) (s : Bool) (n : Nat) :
    Canonical f (ofNatSigned f s n) := by
  unfold ofNatSigned
  by_cases h : n = 0
  · rw [if_pos h]; exact zero_canonical _
  · rw [if_neg h]; exact roundDy_canonical_out hf _ _ _ h

theorem ofNat_canonical (hf : f.WF) (n : Nat) : Canonical f (ofNat f n) :=
  ofNatSigned_canonical hf false n

theorem ofInt_canonical (hf : f.WF) (n : Int) : Canonical f (ofInt f n) := by
  unfold ofInt
  by_cases h : n = 0
  · rw [if_pos h]; exact zero_canonical _
  · rw [if_neg h]; exact roundDy_canonical_out hf _ _ _ (by omega)

/-- `fmod` returns its (finite) first argument when the second is infinite, hence the hypothesis -/
theorem fmod_canonical (hf : f.WF) (x y : Fl) (hx : Canonical f x) :
    Canonical f (fmod f x y) := by
  cases x with
  | nan => cases y <;> trivial
  | inf a => cases y <;> trivial
  | fin s1 m1 e1 =>
    cases y with
    | nan => trivial
    | inf b => exact hx
    | fin s2 m2 e2 =>
      unfold fmod
      simp only []
      by_cases h2 : m2 = 0
      · rw [if_pos h2]; trivial
      · rw [if_neg h2]
        by_cases hr : m1 * 2 ^ (e1 - min e1 e2).toNat % (m2 * 2 ^ (e2 - min e1 e2).toNat) = 0
        · rw [if_pos hr]; exact zero_canonical _
        · rw [if_neg hr]; exact roundDy_canonical_out hf _ _ _ hr

/-! ### 4. decoding -/

theorem two_pow_pred_add (p : Nat) (hp : 1 ≤ p) : 2 ^ (p - 1) + 2 ^ (p - 1) = 2 ^ p := by
  have : p = (p - 1) + 1 := by omega
  rw [this, Nat.pow_succ, Nat.add_sub_cancel]; omega

set_option linter.unusedVariables false in
/-- 4. every bit pattern decodes to a canonical value (`hw` is kept for a uniform interface with
    `toBits_ofBits`; it is not needed here) -/
theorem ofBits_canonical (hf : f.WF) (hw : f.p < f.w)
    (hexp : f.emax = f.emin + ((2 ^ (f.w - f.p) : Nat) : Int) - 3) (bits : Nat) :
    Canonical f (ofBits f bits) := by
  have hp := hf.hp
  have h2p := two_pow_pred_add f.p hp
  unfold ofBits
  simp only []
  generalize hex : bits / 2 ^ (f.p - 1) % 2 ^ (f.w - f.p) = ex
  have hexlt : ex < 2 ^ (f.w - f.p) := by
    rw [← hex]; exact Nat.mod_lt _ (Nat.two_pow_pos _)
  have hfrac : bits % 2 ^ (f.p - 1) < 2 ^ (f.p - 1) := Nat.mod_lt _ (Nat.two_pow_pos _)
  generalize bits % 2 ^ (f.p - 1) = frac at hfrac
  by_cases h1 : (ex == 2 ^ (f.w - f.p) - 1) = true
  · rw [if_pos h1]
    by_cases h0 : (frac == 0) = true
    · rw [if_pos h0]; trivial
    · rw [if_neg h0]; trivial
  · rw [if_neg h1]
    by_cases h2 : (ex == 0) = true
    · rw [if_pos h2, canonical_fin_iff]
      right; exact ⟨hfrac, rfl⟩
    · rw [if_neg h2, canonical_fin_iff]
      left
      have h1' : ex ≠ 2 ^ (f.w - f.p) - 1 := by simpa using h1
      have h2' : ex ≠ 0 := by simpa using h2
      refine ⟨by omega, by omega, by omega, by omega⟩

theorem ofBits_canonical_b64 (bits : Nat) : Canonical b64 (ofBits b64 bits) :=
  ofBits_canonical b64_wf (by decide) b64_exp bits

theorem ofBits_canonical_b32 (bits : Nat) : Canonical b32 (ofBits b32 bits) :=
  ofBits_canonical b32_wf (by decide) b32_exp bits

/-! ### 5. encoding after decoding -/

/-- sign / exponent / fraction fields of a `w`-bit pattern -/
theorem bits_decomp (p w bits : Nat) (hp : 1 ≤ p) (hw : p ≤ w) (hb : bits < 2 ^ w) :
    bits / 2 ^ (w - 1) < 2 ∧
      bits = bits / 2 ^ (w - 1) * 2 ^ (w - 1) + bits / 2 ^ (p - 1) % 2 ^ (w - p) * 2 ^ (p - 1)
        + bits % 2 ^ (p - 1) := by
  have hW : 2 ^ (p - 1) * 2 ^ (w - p) = 2 ^ (w - 1) := by
    rw [← Nat.pow_add]; congr 1; omega
  have hW2 : 2 ^ w = 2 * 2 ^ (w - 1) := by
    rw [← Nat.pow_succ']; congr 1; omega
  have h1 : 2 ^ (p - 1) * (bits / 2 ^ (p - 1)) + bits % 2 ^ (p - 1) = bits := Nat.div_add_mod _ _
  have h2 : 2 ^ (w - p) * (bits / 2 ^ (p - 1) / 2 ^ (w - p)) + bits / 2 ^ (p - 1) % 2 ^ (w - p)
      = bits / 2 ^ (p - 1) := Nat.div_add_mod _ _
  have h3 : bits / 2 ^ (p - 1) / 2 ^ (w - p) = bits / 2 ^ (w - 1) := by
    rw [Nat.div_div_eq_div_mul, hW]
  rw [h3] at h2
  constructor
  · rw [Nat.div_lt_iff_lt_mul (Nat.two_pow_pos _)]; omega
  · generalize bits / 2 ^ (w - 1) = sg at *
    generalize bits / 2 ^ (p - 1) % 2 ^ (w - p) = ex at *
    generalize bits % 2 ^ (p - 1) = frac at *
    generalize bits / 2 ^ (p - 1) = t at *
    subst h2
    rw [← hW, ← h1, Nat.mul_add, Nat.mul_comm sg, Nat.mul_comm ex, Nat.mul_assoc]

theorem sign_field (W sg : Nat) (hsg : sg < 2) :
    (if (sg % 2 == 1) = true then W else 0) = sg * W := by
  have : sg = 0 ∨ sg = 1 := by omega
  rcases this with h | h <;> subst h <;> simp

/-- 5. `toBits ∘ ofBits` is the identity on every non-NaN bit pattern -/
theorem toBits_ofBits (hp : 1 ≤ f.p) (hw : f.p < f.w) (bits : Nat) (hb : bits < 2 ^ f.w)
    (hnan : ofBits f bits ≠ nan) : toBits f (ofBits f bits) = bits := by
  obtain ⟨hsg, hdec⟩ := bits_decomp f.p f.w bits hp (by omega) hb
  have hfrac : bits % 2 ^ (f.p - 1) < 2 ^ (f.p - 1) := Nat.mod_lt _ (Nat.two_pow_pos _)
  have hsb := sign_field (2 ^ (f.w - 1)) _ hsg
  unfold ofBits at hnan ⊢
  simp only [] at hnan ⊢
  generalize bits % 2 ^ (f.p - 1) = frac at *
  generalize bits / 2 ^ (f.p - 1) % 2 ^ (f.w - f.p) = ex at *
  generalize bits / 2 ^ (f.w - 1) = sg at *
  by_cases h1 : (ex == 2 ^ (f.w - f.p) - 1) = true
  · rw [if_pos h1] at hnan ⊢
    by_cases h0 : (frac == 0) = true
    · rw [if_pos h0]
      have h1' : ex = 2 ^ (f.w - f.p) - 1 := by simpa using h1
      have h0' : frac = 0 := by simpa using h0
      show (if (sg % 2 == 1) = true then 2 ^ (f.w - 1) else 0)
        + (2 ^ (f.w - f.p) - 1) * 2 ^ (f.p - 1) = bits
      rw [hsb, hdec, h1', h0']; rfl
    · rw [if_neg h0] at hnan; exact absurd rfl hnan
  · rw [if_neg h1]
    by_cases h2 : (ex == 0) = true
    · rw [if_pos h2]
      have h2' : ex = 0 := by simpa using h2
      show (if frac < 2 ^ (f.p - 1) then
          (if (sg % 2 == 1) = true then 2 ^ (f.w - 1) else 0) + frac else _) = bits
      rw [if_pos hfrac, hsb, hdec, h2']; omega
    · rw [if_neg h2]
      show (if frac + 2 ^ (f.p - 1) < 2 ^ (f.p - 1) then _ else
          (if (sg % 2 == 1) = true then 2 ^ (f.w - 1) else 0)
            + (f.emin + (ex : Int) - 1 - f.emin + 1).toNat * 2 ^ (f.p - 1)
            + (frac + 2 ^ (f.p - 1) - 2 ^ (f.p - 1))) = bits
      rw [if_neg (by omega), hsb, hdec]
      have he : (f.emin + (ex : Int) - 1 - f.emin + 1).toNat = ex := by omega
      rw [he, Nat.add_sub_cancel]

theorem toBits_ofBits_b64 (bits : Nat) (hb : bits < 2 ^ 64) (hnan : ofBits b64 bits ≠ nan) :
    toBits b64 (ofBits b64 bits) = bits :=
  toBits_ofBits (f := b64) (by decide) (by decide) bits hb hnan

theorem toBits_ofBits_b32 (bits : Nat) (hb : bits < 2 ^ 32) (hnan : ofBits b32 bits ≠ nan) :
    toBits b32 (ofBits b32 bits) = bits :=
  toBits_ofBits (f := b32) (by decide) (by decide) bits hb hnan

end Fl
end Uom

#print axioms Uom.b64_exp
#print axioms Uom.b32_exp
#print axioms Uom.Fl.roundDy_canonical_out
#print axioms Uom.Fl.roundInt_canonical
#print axioms Uom.Fl.add_canonical
#print axioms Uom.Fl.sub_canonical
#print axioms Uom.Fl.mul_canonical
#print axioms Uom.Fl.div_canonical
#print axioms Uom.Fl.fma_canonical
#print axioms Uom.Fl.neg_canonical
#print axioms Uom.Fl.abs_canonical
#print axioms Uom.Fl.recip_canonical
#print axioms Uom.Fl.ofDecimal_canonical
#print axioms Uom.Fl.ofNat_canonical
#print axioms Uom.Fl.ofInt_canonical
#print axioms Uom.Fl.fmod_canonical
#print axioms Uom.Fl.ofBits_canonical
#print axioms Uom.Fl.ofBits_canonical_b64
#print axioms Uom.Fl.ofBits_canonical_b32
#print axioms Uom.Fl.toBits_ofBits
#print axioms Uom.Fl.toBits_ofBits_b64
#print axioms Uom.Fl.toBits_ofBits_b32
