import Uom.Model.Compose
import Uom.Model.Coef
import Uom.Gen.Table
import Uom.Gen.Names
import Uom.Gen.Certs
import Uom.Proofs.BodyEq.UnitsEnum
import Uom.Proofs.BodyEq.FmtGlue
/-!
# C05 — the SI unit tables are mutually coherent and anchored

Everything here is decided by the Lean kernel (`decide +kernel`) on the table, the prefix list and the
composition certificates regenerated from /repo/src/si on every run.  The certificate finder
(translate/compose.py) works on identifiers and dimensions only; it is trusted for *completeness*
(which units are composable); soundness is checked here: a certificate must spell the unit's
identifier, carry the quantity's dimension and reproduce the declared coefficient.
-/
namespace Uom.C05
open Uom

def p10 (n : Nat) : Rat := ((10 ^ n : Nat) : Rat)
def tol : Rat := 1 / ((2 ^ 50 : Nat) : Rat)

/-- soundness of the checker: an accepted certificate exhibits a reading with all three properties -/
theorem certOk_sound (t : List QuantityDecl) (ps : List (Str × CExpr)) (b : Rat) (c : Cert) (h : certOk t ps b c = true) :
    ∃ q u, getUnit t c.qi c.ui = some (q, u) ∧ u.cons = none ∧
      ∃ r ∈ c.readings, render t ps r = some u.name ∧ dimOf t q.dim.length r = some q.dim ∧
        ∃ v, value t ps r = some v ∧ relClose b u.coef.exact v = true := by
  unfold certOk at h
  split at h
  · exact absurd h (by simp)
  · rename_i q u hq
    simp only [Bool.and_eq_true, List.any_eq_true] at h
    obtain ⟨hc, r, hr, hok⟩ := h
    refine ⟨q, u, hq, by simpa [Option.isNone_iff_eq_none] using hc, r, hr, ?_⟩
    unfold readingOk at hok
    simp only [Bool.and_eq_true, decide_eq_true_eq] at hok
    obtain ⟨⟨h1, h2⟩, h3⟩ := hok
    refine ⟨h1, h2, ?_⟩
    split at h3
    · rename_i v hv; exact ⟨v, hv, h3⟩
    · exact absurd h3 (by simp)

/-- **composition**: every name-composable unit (outside the known findings) has a reading of its
    identifier with the quantity's dimension whose value reproduces the coefficient within 2⁻⁵⁰ -/
theorem composed_ok : (Gen.certChunks.all fun ch => ch.all (certOk Gen.table Gen.prefixes tol)) = true := by
  decide +kernel

/-- the ∀-form of `composed_ok` -/
theorem composed_ok_forall : ∀ ch ∈ Gen.certChunks, ∀ c ∈ ch,
    ∃ q u, getUnit Gen.table c.qi c.ui = some (q, u) ∧ u.cons = none ∧
      ∃ r ∈ c.readings, render Gen.table Gen.prefixes r = some u.name ∧ dimOf Gen.table q.dim.length r = some q.dim ∧
        ∃ v, value Gen.table Gen.prefixes r = some v ∧ relClose tol u.coef.exact v = true := by
  intro ch hch c hc
  have h := composed_ok
  rw [List.all_eq_true] at h
  have h2 := h ch hch
  rw [List.all_eq_true] at h2
  exact certOk_sound _ _ _ _ (h2 c hc)

/-- known finding F6b: the ten seven-digit coefficients stay within their individually recorded bounds -/
theorem deviants_bounded : (Gen.devCerts.all fun p => certOk Gen.table Gen.prefixes p.1 p.2) = true := by
  decide +kernel

/-- known finding F6a: exactly two identifiers read as a composition of another dimension -/
theorem misnamed_known :
    (Gen.misnamed.map fun p => (getUnit Gen.table p.1 p.2).map fun qu => (qu.1.modName, qu.2.name)) =
      [some (Gen.N.energy, Gen.N.foot_pound), some (Gen.N.thermal_conductance, Gen.N.watt_per_meter_degree_celsius)] := by
  decide +kernel

/-- every unit is accounted for: composable + deviant + misnamed + primitive = all declared units -/
theorem partition_complete :
    (Gen.certChunks.map List.length).sum + Gen.devCerts.length + Gen.misnamed.length + Gen.primitives.length
      = (Gen.table.map fun q => q.units.length).sum := by
  decide +kernel

/-- the base units named in `system!`: coefficient exactly 1 (as a rational and as f32 / f64 bit
    patterns) and no offset -/
def baseUnitOk (b : BaseDecl) : Bool :=
  match findQuantity Gen.table b.name with
  | none => false
  | some q => match q.findUnit b.unit with
    | none => false
    | some u => u.cons.isNone && decide (u.coef.exact = 1) &&
        Fl.toBits b64 (u.coefFl b64) == 0x3ff0000000000000 && Fl.toBits b32 (u.coefFl b32) == 0x3f800000

theorem base_units_one : (Gen.system.base.all baseUnitOk) = true ∧ Gen.system.base.length = 7 := by
  decide +kernel

/-- the i-th base quantity has exponent 1 in position i and 0 elsewhere -/
theorem base_dims :
    (Gen.system.base.zipIdx.all fun (b, i) =>
      match findQuantity Gen.table b.name with
      | none => false
      | some q => q.dim == (List.range 7).map (fun j => if j = i then 1 else 0)) = true := by
  decide +kernel

/-- is `(qi, ui)` one of the seven base units -/
def isBaseUnit (qi ui : Nat) : Bool :=
  match getUnit Gen.table qi ui with
  | none => false
  | some (q, u) => Gen.system.base.any fun b => b.name == q.modName && b.unit == u.name

/-- **coherent units**: every unit whose identifier reads as a composition of un-prefixed base units
    only (`meter_per_second`, `kilogram_meter_squared_per_second_cubed_kelvin`, …) has coefficient exactly 1 -/
theorem coherent_unit_one :
    (Gen.certChunks.all fun ch => ch.all fun c =>
      !(c.readings.any fun r => r.all fun g => g.all fun f => f.pfx < 0 && isBaseUnit f.qi f.ui) ||
      (match getUnit Gen.table c.qi c.ui with
       | some (_, u) => decide (u.coef.exact = 1) && u.cons.isNone
       | none => false)) = true := by
  decide +kernel

/-- every quantity has a coherent unit: some unit with coefficient exactly 1 and no offset -/
theorem every_quantity_has_coherent_unit :
    (Gen.table.all fun q => q.units.any fun u => decide (u.coef.exact = 1) && u.cons.isNone) = true := by
  decide +kernel

/-- anchor units with exactly defined values -/
def anchors : List (Str × Str × Rat) := [
  (Gen.N.length, Gen.N.inch, 254 / 10000), (Gen.N.length, Gen.N.foot, 3048 / 10000), (Gen.N.length, Gen.N.yard, 9144 / 10000),
  (Gen.N.length, Gen.N.mile, 1609344 / 1000), (Gen.N.length, Gen.N.nautical_mile, 1852), (Gen.N.length, Gen.N.angstrom, 1 / p10 10),
  (Gen.N.length, Gen.N.micron, 1 / p10 6), (Gen.N.mass, Gen.N.grain, 6479891 / p10 11), (Gen.N.mass, Gen.N.carat, 2 / p10 4),
  (Gen.N.mass, Gen.N.ton, 1000), (Gen.N.mass, Gen.N.gram, 1 / 1000), (Gen.N.time, Gen.N.minute, 60), (Gen.N.time, Gen.N.hour, 3600),
  (Gen.N.time, Gen.N.day, 86400), (Gen.N.time, Gen.N.year, 31536000), (Gen.N.volume, Gen.N.liter, 1 / 1000),
  (Gen.N.pressure, Gen.N.bar, 100000), (Gen.N.pressure, Gen.N.atmosphere, 101325), (Gen.N.energy, Gen.N.calorie, 4184 / 1000),
  (Gen.N.energy, Gen.N.electronvolt, 1602176634 / p10 28), (Gen.N.energy, Gen.N.kilowatt_hour, 3600000),
  (Gen.N.area, Gen.N.hectare, 10000), (Gen.N.area, Gen.N.barn, 1 / p10 28), (Gen.N.acceleration, Gen.N.standard_gravity, 980665 / 100000),
  (Gen.N.force, Gen.N.kilogram_force, 980665 / 100000), (Gen.N.force, Gen.N.dyne, 1 / p10 5), (Gen.N.energy, Gen.N.erg, 1 / p10 7),
  (Gen.N.electric_charge, Gen.N.elementary_charge, 1602176634 / p10 28), (Gen.N.ratio, Gen.N.percent, 1 / 100),
  (Gen.N.ratio, Gen.N.part_per_million, 1 / p10 6), (Gen.N.information, Gen.N.byte, 1), (Gen.N.information, Gen.N.bit, 1 / 8),
  (Gen.N.information, Gen.N.kibibyte, 1024), (Gen.N.information, Gen.N.kilobyte, 1000), (Gen.N.information, Gen.N.mebibyte, 1048576),
  (Gen.N.mass, Gen.N.dalton, 16605390666 / p10 37), (Gen.N.time, Gen.N.shake, 1 / p10 8),
  (Gen.N.angle, Gen.N.degree, 17453292519943295 / p10 18), (Gen.N.angle, Gen.N.revolution, 6283185307179586 / p10 15),
  (Gen.N.thermodynamic_temperature, Gen.N.degree_rankine, (5 : Rat) / 9)]

def anchorOk (bound : Rat) (a : Str × Str × Rat) : Bool :=
  match findQuantity Gen.table a.1 with
  | none => false
  | some q => match q.findUnit a.2.1 with
    | none => false
    | some u => relClose bound u.coef.exact a.2.2

/-- the anchors have their defined values (within one part in 2⁵⁰: degree_rankine is written `5.0 / 9.0`) -/
theorem anchors_ok : (anchors.all (anchorOk tol)) = true := by decide +kernel

/-- customary units the crate takes from NIST SP 811 as seven-significant-digit values agree with the
    exact definitions to that precision -/
def anchors7 : List (Str × Str × Rat) := [
  (Gen.N.mass, Gen.N.pound, 45359237 / p10 8), (Gen.N.mass, Gen.N.ounce, 28349523125 / p10 12),
  (Gen.N.volume, Gen.N.gallon, 3785411784 / p10 12), (Gen.N.force, Gen.N.pound_force, 44482216152605 / p10 13),
  (Gen.N.length, Gen.N.astronomical_unit, 149597870700), (Gen.N.length, Gen.N.light_year, 9460730472580800),
  (Gen.N.power, Gen.N.horsepower, 74569987158227022 / p10 14)]

theorem anchors7_ok : (anchors7.all (anchorOk (5 / p10 7))) = true := by decide +kernel

/-- the f64 / f32 coefficient of every unit is within 2 units of round-off of the exact value of its
    declaration (so the float tables inherit the coherence proved on exact values) -/
def floatCoefClose (f : Fmt) (u : UnitDecl) : Bool :=
  let x := u.coefFl f
  x.isFinite && relClose (4 / ((2 ^ f.p : Nat) : Rat)) x.toRat u.coef.exact

theorem float_coef_close_f64 : (Gen.table.all fun q => q.units.all (floatCoefClose b64)) = true := by
  decide +kernel

/-- binary32: the same for every unit whose exact coefficient lies in the normal range of the format
    (26 extreme units such as `cubic_yottameter` over/underflow in f32: the property's own guard);
    bound 16u because a few declarations are products of up to six rounded factors -/
def floatCoefClose32 (u : UnitDecl) : Bool :=
  let x := u.coefFl b32
  let e := u.coef.exact
  !(decide (1 / ((2 ^ 126 : Nat) : Rat) ≤ e) && decide (e ≤ ((2 ^ 127 : Nat) : Rat))) ||
    (x.isFinite && relClose (16 / ((2 ^ 24 : Nat) : Rat)) x.toRat e)

theorem float_coef_close_f32 : (Gen.table.all fun q => q.units.all floatCoefClose32) = true := by
  decide +kernel

/-! ### tie to the source: the registry's label methods regenerated from /repo/src/quantity.rs on this run

"the run-time unit registry of each quantity lists exactly the declared units with the same labels": `units()`
yields the variants of `Units`, and `Units::abbreviation / singular / plural` answer through a `match` with one arm
per declared unit.  For **every** list of declared units with pairwise distinct identifiers (rustc rejects an enum
with two variants of one name, E0428) and every position `i`: the method applied to the `i`-th variant returns what
the `i`-th unit's own `Unit` impl returns — never a neighbour's label, never another flavour. -/
section SourceTieRx
open Uom.Rx Uom.Gen.RxBody Uom.BodyEq.UnitsEnum

theorem src_units_enum_labels (names : List Bytes) (abbr sing plur : Nat → Bytes) (hnd : names.Nodup)
    (i : Nat) (hi : i < names.length) :
    run (envUnits names abbr sing plur) quantity_inherent_Units_abbreviation [variant names i] =
      (.val (.str (abbr i)), []) ∧
    run (envUnits names abbr sing plur) quantity_inherent_Units_singular [variant names i] =
      (.val (.str (sing i)), []) ∧
    run (envUnits names abbr sing plur) quantity_inherent_Units_plural [variant names i] =
      (.val (.str (plur i)), []) :=
  ⟨units_abbreviation_eq names abbr sing plur hnd i hi, units_singular_eq names abbr sing plur hnd i hi,
   units_plural_eq names abbr sing plur hnd i hi⟩

/-- `units()` regenerated from src/quantity.rs yields exactly the constant `ALL_UNITS`: every element, in order —
    nothing is filtered, mapped or reordered between the declaration list and what the caller iterates over -/
theorem src_units_is_all_units (all : List Nat) :
    run (envRegistry all) quantity_free_units [] = (.val (.host all), []) := units_eq all

/-- `<unit as Unit>::abbreviation() / singular() / plural()` (src/unit.rs) return the three label literals of the
    unit's declaration line, each its own (three different names) -/
theorem src_unit_labels (a sg pl : Bytes) :
    (run (Uom.BodyEq.FmtGlue.envConst c_abbreviation (.str a)) unit_Unit_for_unit_abbreviation [] = (.val (.str a), []) ∧
     run (Uom.BodyEq.FmtGlue.envConst c_singular (.str sg)) unit_Unit_for_unit_singular [] = (.val (.str sg), []) ∧
     run (Uom.BodyEq.FmtGlue.envConst c_plural (.str pl)) unit_Unit_for_unit_plural [] = (.val (.str pl), [])) ∧
    (c_abbreviation ≠ c_singular ∧ c_abbreviation ≠ c_plural ∧ c_singular ≠ c_plural) :=
  ⟨Uom.BodyEq.FmtGlue.unit_labels_eq a sg pl, Uom.BodyEq.FmtGlue.unit_label_names_distinct⟩

/-- the three `Unit` methods are three different functions of the environment (so the statement above can tell a
    swapped flavour) -/
theorem src_unit_methods_distinct :
    c_unit_as_system_Unit_abbreviation ≠ c_unit_as_system_Unit_singular ∧
    c_unit_as_system_Unit_abbreviation ≠ c_unit_as_system_Unit_plural ∧
    c_unit_as_system_Unit_singular ≠ c_unit_as_system_Unit_plural := three_methods_distinct

/-- pairwise distinct, as a boolean the kernel can evaluate -/
def nodupB : List Bytes → Bool
  | [] => true
  | x :: xs => !xs.contains x && nodupB xs

theorem nodupB_sound : ∀ l, nodupB l = true → l.Nodup
  | [], _ => List.nodup_nil
  | x :: xs, h => by
    simp only [nodupB, Bool.and_eq_true, Bool.not_eq_true', List.contains_eq_mem, decide_eq_false_iff_not] at h
    exact List.nodup_cons.mpr ⟨h.1, nodupB_sound xs h.2⟩

/-- the identifiers of the units of every SI quantity, as declared in src/si on this run, are pairwise distinct -/
theorem unit_names_distinct : (Gen.table.all fun q => nodupB (q.units.map fun u => u.name.bytes)) = true := by
  decide +kernel

/-- for **any** table of quantity declarations whose unit identifiers are pairwise distinct within each quantity
    (the SI tables below, the harness's own system in C19): for every quantity and every position, the three
    methods return the labels of that row of the table -/
theorem src_units_enum_labels_table (tbl : List QuantityDecl)
    (hd : (tbl.all fun q => nodupB (q.units.map fun u => u.name.bytes)) = true)
    (q : QuantityDecl) (hq : q ∈ tbl) (i : Nat) (hi : i < q.units.length) :
    let names := q.units.map fun u => u.name.bytes
    let abbr := fun j => ((q.units[j]?).map (·.abbr.bytes)).getD []
    let sing := fun j => ((q.units[j]?).map (·.sing.bytes)).getD []
    let plur := fun j => ((q.units[j]?).map (·.plur.bytes)).getD []
    run (envUnits names abbr sing plur) quantity_inherent_Units_abbreviation [variant names i] =
      (.val (.str (q.units[i].abbr.bytes)), []) ∧
    run (envUnits names abbr sing plur) quantity_inherent_Units_singular [variant names i] =
      (.val (.str (q.units[i].sing.bytes)), []) ∧
    run (envUnits names abbr sing plur) quantity_inherent_Units_plural [variant names i] =
      (.val (.str (q.units[i].plur.bytes)), []) := by
  intro names abbr sing plur
  have hnd : names.Nodup := nodupB_sound _ (List.all_eq_true.mp hd q hq)
  have hi' : i < names.length := by simpa [names] using hi
  have ha : abbr i = q.units[i].abbr.bytes := by simp [abbr, hi]
  have hs : sing i = q.units[i].sing.bytes := by simp [sing, hi]
  have hp : plur i = q.units[i].plur.bytes := by simp [plur, hi]
  rw [← ha, ← hs, ← hp]
  exact ⟨units_abbreviation_eq names abbr sing plur hnd i hi', units_singular_eq names abbr sing plur hnd i hi',
    units_plural_eq names abbr sing plur hnd i hi'⟩

/-- … so for the SI tables the statement needs no hypothesis: for every declared quantity and every position -/
theorem src_units_enum_labels_si (q : QuantityDecl) (hq : q ∈ Gen.table) (i : Nat) (hi : i < q.units.length) :
    let names := q.units.map fun u => u.name.bytes
    let abbr := fun j => ((q.units[j]?).map (·.abbr.bytes)).getD []
    let sing := fun j => ((q.units[j]?).map (·.sing.bytes)).getD []
    let plur := fun j => ((q.units[j]?).map (·.plur.bytes)).getD []
    run (envUnits names abbr sing plur) quantity_inherent_Units_abbreviation [variant names i] =
      (.val (.str (q.units[i].abbr.bytes)), []) ∧
    run (envUnits names abbr sing plur) quantity_inherent_Units_singular [variant names i] =
      (.val (.str (q.units[i].sing.bytes)), []) ∧
    run (envUnits names abbr sing plur) quantity_inherent_Units_plural [variant names i] =
      (.val (.str (q.units[i].plur.bytes)), []) :=
  src_units_enum_labels_table Gen.table unit_names_distinct q hq i hi

end SourceTieRx

end Uom.C05
