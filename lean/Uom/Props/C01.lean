import Uom.Model.Dim
import Uom.Gen.Table
import Uom.Gen.Sigs
/-!
# C01 — operator results carry the dimension that dimensional analysis prescribes

`outMul`, `outDiv`, … are the type-level templates of the `impl`s in src/system.rs
(`ISQ<Sum<Dl::L, Dr::L>, …>` etc.; typenum modelled by `Int`).  All theorems hold for any number of
base quantities and any integer exponents.
-/
namespace Uom.C01
open Uom

theorem zipDims_get (f : Int → Int → Int) (a b : List Int) (i : Nat) (ha : i < a.length) (hb : i < b.length) :
    (zipDims f a b)[i]? = some (f a[i] b[i]) := by
  induction a generalizing b i with
  | nil => simp at ha
  | cons x xs ih =>
    cases b with
    | nil => simp at hb
    | cons y ys =>
      cases i with
      | zero => simp [zipDims]
      | succ j =>
        simp only [zipDims, List.getElem?_cons_succ, List.getElem_cons_succ]
        exact ih ys j (by simpa using ha) (by simpa using hb)

/-- `*`: every exponent is the sum; the result is of the default kind -/
theorem mul_dim (l r : QTy) (i : Nat) (hl : i < l.dim.length) (hr : i < r.dim.length) :
    (outMul l r).dim[i]? = some (l.dim[i] + r.dim[i]) ∧ (outMul l r).kind = 0 :=
  ⟨zipDims_get _ _ _ i hl hr, rfl⟩

/-- `/`: the difference -/
theorem div_dim (l r : QTy) (i : Nat) (hl : i < l.dim.length) (hr : i < r.dim.length) :
    (outDiv l r).dim[i]? = some (l.dim[i] - r.dim[i]) ∧ (outDiv l r).kind = 0 :=
  ⟨zipDims_get _ _ _ i hl hr, rfl⟩

/-- `recip`: the negation -/
theorem recip_dim (q : QTy) (i : Nat) (h : i < q.dim.length) :
    (outRecip q).dim[i]? = some (-q.dim[i]) ∧ (outRecip q).kind = 0 := by
  simp [outRecip, h]

/-- `powi(E)`: the product with `E` -/
theorem powi_dim (q : QTy) (e : Int) (i : Nat) (h : i < q.dim.length) :
    (outPowi q e).dim[i]? = some (q.dim[i] * e) ∧ (outPowi q e).kind = 0 := by
  simp [outPowi, h]

/-- roots are defined exactly when every exponent is divisible … -/
theorem root_defined_iff (n : Int) (q : QTy) : (outRoot n q).isSome ↔ ∀ d ∈ q.dim, d % n = 0 := by
  unfold outRoot
  split
  · rename_i h; simp only [Option.isSome_some, true_iff]
    intro d hd; simpa using (List.all_eq_true.mp h) d hd
  · rename_i h; simp only [Option.isSome_none, Bool.false_eq_true, false_iff]
    intro hall; apply h; rw [List.all_eq_true]; intro d hd; simpa using hall d hd

/-- … and then every exponent is the exact quotient -/
theorem root_dim (n : Int) (q r : QTy) (h : outRoot n q = some r) (i : Nat) (hi : i < q.dim.length) :
    r.dim[i]? = some (q.dim[i] / n) ∧ n * (q.dim[i] / n) = q.dim[i] ∧ r.kind = 0 := by
  unfold outRoot at h
  split at h
  · rename_i hall
    injection h with h; subst h
    refine ⟨by simp [hi], ?_, rfl⟩
    have := (List.all_eq_true.mp hall) q.dim[i] (List.getElem_mem hi)
    have hm : q.dim[i] % n = 0 := by simpa using this
    exact Int.mul_ediv_cancel' (Int.dvd_of_emod_eq_zero hm)
  · exact absurd h (by simp)

/-- fused multiply-add: `x.mul_add(a, b)` has the dimension of `x * a` (which `b` must have too) -/
theorem mul_add_dim (x a : QTy) : outMulAdd x a = outMul x a := rfl

/-- scalar on the left, `V * q`: dimension *and kind* of `q` -/
theorem scalar_left_mul (q : QTy) : outScalarLeftMul q = q := by
  unfold outScalarLeftMul
  have : q.dim.map (fun d => 0 + d) = q.dim := by
    induction q.dim with
    | nil => rfl
    | cons x xs ih => simp [ih]
  rw [this]

/-- `V / q`: negated exponents, kind of `q` -/
theorem scalar_left_div (q : QTy) : outScalarLeftDiv q = ⟨q.dim.map (fun d => -d), q.kind⟩ := by
  unfold outScalarLeftDiv
  congr 1
  apply List.map_congr_left
  intro d _; omega

/-- `+ − % Neg`, scaling by a bare number on the right, assigning forms and all rounding / sign /
    min / max functions return the dimension and kind of their left operand unchanged -/
theorem preserving (l : QTy) : outPreserving l = l := rfl

/-- **interchangeable**: if `C` is a default-kind type whose exponents are the sums (differences) of
    those of `A` and `B`, then `A * B` (`A / B`) *is* the type `C` -/
theorem interchangeable_mul (A B C : QTy) (hk : C.kind = 0) (hd : C.dim = zipDims (· + ·) A.dim B.dim) :
    outMul A B = C := by
  cases C; simp_all [outMul]

theorem interchangeable_div (A B C : QTy) (hk : C.kind = 0) (hd : C.dim = zipDims (· - ·) A.dim B.dim) :
    outDiv A B = C := by
  cases C; simp_all [outDiv]

/-! ### the generated SI: textbook identities decided on the table regenerated from src/si
(an exponent typo in a quantity file breaks one of these) -/

def ty (q : QuantityDecl) : QTy := ⟨q.dim, q.kind⟩

open Gen in
theorem si_identities :
    outDiv (ty q_length) (ty q_time) = ty q_velocity ∧
    outDiv (ty q_velocity) (ty q_time) = ty q_acceleration ∧
    outMul (ty q_mass) (ty q_acceleration) = ty q_force ∧
    outMul (ty q_force) (ty q_length) = ty q_energy ∧
    outDiv (ty q_energy) (ty q_time) = ty q_power ∧
    outDiv (ty q_force) (ty q_area) = ty q_pressure ∧
    outMul (ty q_length) (ty q_length) = ty q_area ∧
    outMul (ty q_area) (ty q_length) = ty q_volume ∧
    outDiv (ty q_mass) (ty q_volume) = ty q_mass_density ∧
    outMul (ty q_electric_current) (ty q_time) = ty q_electric_charge ∧
    outDiv (ty q_power) (ty q_electric_current) = ty q_electric_potential ∧
    outDiv (ty q_electric_potential) (ty q_electric_current) = ty q_electrical_resistance ∧
    outDiv (ty q_electric_charge) (ty q_electric_potential) = ty q_capacitance ∧
    outRecip (ty q_time) = ty q_frequency ∧
    outMul (ty q_mass) (ty q_velocity) = ty q_momentum ∧
    outDiv (ty q_energy) (ty q_temperature_interval) = ty q_heat_capacity ∧
    outDiv (ty q_energy) (ty q_amount_of_substance) = ty q_molar_energy ∧
    outDiv (ty q_mass) (ty q_amount_of_substance) = ty q_molar_mass ∧
    outDiv (ty q_luminous_intensity) (ty q_area) = ty q_luminance ∧
    outMul (ty q_electric_potential) (ty q_time) = ty q_magnetic_flux ∧
    outDiv (ty q_magnetic_flux) (ty q_area) = ty q_magnetic_flux_density ∧
    outDiv (ty q_magnetic_flux) (ty q_electric_current) = ty q_inductance ∧
    outRecip (ty q_electrical_resistance) = ty q_electrical_conductance ∧
    outDiv (ty q_volume) (ty q_time) = ty q_volume_rate ∧
    outDiv (ty q_mass) (ty q_time) = ty q_mass_rate ∧
    outMul (ty q_force) (ty q_time) = ty q_momentum ∧
    outMul (ty q_energy) (ty q_time) = ty q_action ∧
    outDiv (ty q_power) (ty q_area) = ty q_heat_flux_density ∧
    outDiv (ty q_length) (ty q_length) = ty q_ratio ∧
    outDiv (ty q_velocity) (ty q_length) = ty q_frequency ∧
    outRoot 2 (ty q_area) = some (ty q_length) ∧
    outRoot 3 (ty q_volume) = some (ty q_length) ∧
    outRoot 2 (ty q_length) = none ∧
    outRoot 3 (ty q_area) = none ∧
    outPowi (ty q_length) 3 = ty q_volume ∧
    outPowi (ty q_time) (-1) = ty q_frequency ∧
    outDiv (outDiv (ty q_power) (ty q_length)) (ty q_temperature_interval) = ty q_thermal_conductivity ∧
    outDiv (ty q_energy) (ty q_mass) = ty q_available_energy ∧
    outMul (ty q_pressure) (ty q_time) = ty q_dynamic_viscosity ∧
    outMulAdd (ty q_length) (ty q_length) = ty q_area := by
  decide +kernel

/-- every quantity has one exponent per base quantity -/
theorem all_dims_have_seven : (Gen.table.all fun q => q.dim.length == 7) = true := by decide +kernel

/-! ### tie to the source: the operator signatures regenerated from /repo/src on this run

`Gen.Sig.*` is what the translator read from the `impl` headers, `type Output` declarations, method
return types and `where` clauses of src/system.rs just now; `Sig.outTy` evaluates the output type over
the type-level model.  For **every** choice of operand types (`env`) the regenerated output type is the
hand-written `outMul`, `outDiv`, … that the theorems above are about. -/
section SourceTie
open Uom.Body Uom.Sig Uom.Gen.Sig

theorem src_mul_output (env : TyP → QTy) (e : Int) :
    system_Mul_Quantity_for_Quantity_mul_auto.outTy env e = some (outMul (env .Dl) (env .Dr)) ∧
    system_Mul_Quantity_for_Quantity_mul_noauto.outTy env e = some (outMul (env .Dl) (env .Dr)) := ⟨rfl, rfl⟩

theorem src_div_output (env : TyP → QTy) (e : Int) :
    system_Div_Quantity_for_Quantity_div_auto.outTy env e = some (outDiv (env .Dl) (env .Dr)) ∧
    system_Div_Quantity_for_Quantity_div_noauto.outTy env e = some (outDiv (env .Dl) (env .Dr)) := ⟨rfl, rfl⟩

theorem src_unary_outputs (env : TyP → QTy) (e : Int) :
    system_inherent_Quantity_recip.outTy env e = some (outRecip (env .D)) ∧
    system_inherent_Quantity_powi.outTy env e = some (outPowi (env .D) e) ∧
    system_inherent_Quantity_sqrt.outTy env e = outRoot 2 (env .D) ∧
    system_inherent_Quantity_cbrt.outTy env e = outRoot 3 (env .D) ∧
    system_inherent_Quantity_mul_add_auto.outTy env e = some (outMulAdd (env .D) (env .Da)) ∧
    system_inherent_Quantity_mul_add_noauto.outTy env e = some (outMulAdd (env .D) (env .Da)) :=
  ⟨rfl, rfl, rfl, rfl, rfl, rfl⟩

/-- scalar on the left keeps the kind (`…, D::Kind>`); scalar on the right and every additive / unary
    form return the left operand's own type -/
theorem src_scalar_and_preserving_outputs (env : TyP → QTy) (e : Int) :
    system_Mul_Quantity_for_V_mul.outTy env e = some (outScalarLeftMul (env .D)) ∧
    system_Div_Quantity_for_V_div.outTy env e = some (outScalarLeftDiv (env .D)) ∧
    system_Mul_V_for_Quantity_mul.outTy env e = some (outPreserving (env .D)) ∧
    system_Div_V_for_Quantity_div.outTy env e = some (outPreserving (env .D)) ∧
    system_Add_Quantity_for_Quantity_add_auto.outTy env e = some (outPreserving (env .D)) ∧
    system_Add_for_Quantity_add_noauto.outTy env e = some (outPreserving (env .D)) ∧
    system_Sub_Quantity_for_Quantity_sub_auto.outTy env e = some (outPreserving (env .D)) ∧
    system_Sub_for_Quantity_sub_noauto.outTy env e = some (outPreserving (env .D)) ∧
    system_Rem_Quantity_for_Quantity_rem_auto.outTy env e = some (outPreserving (env .D)) ∧
    system_Rem_for_Quantity_rem_noauto.outTy env e = some (outPreserving (env .D)) ∧
    system_Neg_for_Quantity_neg.outTy env e = some (outPreserving (env .D)) ∧
    system_inherent_Quantity_abs.outTy env e = some (outPreserving (env .D)) ∧
    system_inherent_Quantity_signum.outTy env e = some (outPreserving (env .D)) ∧
    system_inherent_Quantity_max.outTy env e = some (outPreserving (env .D)) ∧
    system_inherent_Quantity_min.outTy env e = some (outPreserving (env .D)) ∧
    system_inherent_Quantity_hypot_auto.outTy env e = some (outPreserving (env .D)) ∧
    system_inherent_Quantity_hypot_noauto.outTy env e = some (outPreserving (env .D)) ∧
    system_Saturating_for_Quantity_saturating_add.outTy env e = some (outPreserving (env .D)) ∧
    system_Saturating_for_Quantity_saturating_sub.outTy env e = some (outPreserving (env .D)) :=
  ⟨rfl, rfl, rfl, rfl, rfl, rfl, rfl, rfl, rfl, rfl, rfl, rfl, rfl, rfl, rfl, rfl, rfl, rfl, rfl⟩

end SourceTie

end Uom.C01
