import Uom.Model.Conv
import Uom.Model.Oracle
import Uom.Proofs.BodyEq.Conv
import Uom.Proofs.BodyEq.Storage
import Uom.Proofs.BodyEq.UnitMac
/-!
# C20 — complex storage (known finding F5)

The code takes the *norm* of a complex value as its conversion factor (`Conversion<Complex>::conversion`
= `self.norm()`, src/lib.rs) and re-embeds the converted real number with a zero imaginary part.
`cplxS f norm` models exactly that (the norm, a libm `hypot`, is a parameter).  The property as stated
is therefore false of the code; we prove the exact shape of the defect, refute the full statement by a
kernel-evaluated witness, and prove the part that does hold.
-/
namespace Uom.C20
open Uom

/-- the defect, exactly: whatever the complex value, the stored value is the *real* conversion of its
    norm with a zero imaginary part -/
theorem complex_defect (f : Fmt) (norm : Fl × Fl → Fl) (coef c fac : Fl) (z : Fl × Fl) :
    toBase (cplxS f norm) coef c fac z = (toBase (flS f) coef c fac (norm z), Fl.zero f false) := by
  unfold toBase; simp only [cplxS, flS, id]; split <;> rfl

theorem complex_defect_get (f : Fmt) (norm : Fl × Fl → Fl) (coef c fac : Fl) (z : Fl × Fl) :
    fromBase (cplxS f norm) coef c fac z = (fromBase (flS f) coef c fac (norm z), Fl.zero f false) := by
  unfold fromBase; simp only [cplxS, flS, id]; split <;> rfl

/-- the full statement of the property (construction scales both parts) -/
def complex_full (f : Fmt) (norm : Fl × Fl → Fl) : Prop :=
  ∀ coef c fac : Fl, ∀ z : Fl × Fl,
    toBase (cplxS f norm) coef c fac z = (toBase (flS f) coef c fac z.1, toBase (flS f) coef (Fl.zero f true) fac z.2)

/-- … is refuted by `3 + 4i` metres (norm 5): the code stores `5 + 0i` -/
theorem complex_full_false :
    ¬ complex_full b64 (fun _ => Fl.ofBits b64 0x4014000000000000) := by
  intro h
  have := h (Fl.one b64) (Fl.zero b64 true) (Fl.one b64) (Fl.ofBits b64 0x4008000000000000, Fl.ofBits b64 0x4010000000000000)
  revert this
  decide +kernel

/-- what does hold: a non-negative real value (imaginary part +0, norm = the real part) converts like
    the real number -/
theorem complex_partial (f : Fmt) (norm : Fl × Fl → Fl) (coef c fac re : Fl)
    (hn : norm (re, Fl.zero f false) = re) :
    toBase (cplxS f norm) coef c fac (re, Fl.zero f false) = (toBase (flS f) coef c fac re, Fl.zero f false) := by
  rw [complex_defect, hn]

/-! ### tie to the source: the function bodies regenerated from /repo/src on this run

`Gen.Body.*` below is what the translator read from the Rust source just now; `Body.run` evaluates it
over any storage type.  These theorems state the property's code path *for the regenerated bodies*:
they fail to check as soon as the source computes something else. -/
section SourceTie
open Uom.Body Uom.Gen.Body

/-- complex storage as the code is: the conversion factor of a value is `self.norm()`, and a factor is
    re-embedded by `V::new(self, 0.0)` (`cplxS.conv`, `cplxS.value`); construction and reading run the
    same `to_base` / `from_base` kernel as every other storage type -/
theorem src_complex_storage (N : NumTy) (env : Env N) (x : Val N) :
    run N env lib_Conversion_V_for_V_conversion_Complex [x] = env.fwd m_norm [x] ∧
    run N env lib_ConversionFactor_V_for_VV_value_Complex [x] = env.ext f_V_new [x, .bad] :=
  ⟨rfl, rfl⟩
theorem src_new (N : NumTy) (env : Env N) (v : N.S.V) :
    run N env quantity_inherent_quantity_new [argV v]
      = argQ (toBase N.S env.nCoef env.nConsA (env.bf .U .Dimension) v) := BodyEq.new_eq N env v
theorem src_get (N : NumTy) (env : Env N) (a : N.S.V) :
    run N env quantity_inherent_quantity_get [argQ a]
      = argV (fromBase N.S env.nCoef env.nConsS (env.bf .U .Dimension) a) := BodyEq.get_eq N env a

end SourceTie

/-! ### tie to the source: what a unit publishes for complex storage (`unit!`, /repo/src/unit.rs, this run) -/
section SourceTieUnit
open Uom.Rx Uom.Gen.RxBody Uom.BodyEq.UnitMac

/-- complex storage publishes the declared *real* factor and the declared constant (or the signed zeros):
    the offset of °C / °F is not lost for complex quantities -/
theorem src_unit_coefficient_complex {F T R B : Type} (zero : F) (negF : F → F) (d : Decl F) (L : Lib F T R B) :
    run (envUnit zero negF d L) unit_Conversion_V_for_unit_coefficient_Complex [] = (.val (.host (.f d.factor)), []) :=
  coefficient_complex zero negF d L
theorem src_unit_constant_complex {F T R B : Type} (zero : F) (negF : F → F) (d : Decl F) (L : Lib F T R B) (add : Bool) :
    run (envUnit zero negF d L) unit_Conversion_V_for_unit_constant_Complex [.ctor0 (opCode add)] =
      (.val (.host (.f (declConst zero negF d add))), []) :=
  constant_complex zero negF d L add

end SourceTieUnit

end Uom.C20
