import Uom.Model.Conv
import Uom.Model.Coef
import Uom.Proofs.FlConvIdentity
import Uom.Gen.Table
import Uom.Gen.Names
import Uom.Proofs.BodyEq.Trig
import Uom.Proofs.BodyEq.TrigRx
/-!
# C18 — angle and ratio functions act on the dimensionless magnitude, whatever the unit

The libm functions (`sin`, `asin`, `exp`, `atan2`, …) are parameters `g`.  Angle and Ratio are
dimensionless, so their base factor is `1` in every base-unit set and the stored value *is* the
magnitude in radians / as a plain ratio.
-/
namespace Uom.C18
open Uom

/-- `Angle::sin` etc. (src/si/angle.rs): `self.value.g().into()` — the storage type's function of the
    stored value, wrapped as a ratio by `From<V> for Ratio` (the identity on the value) -/
def angleFn (g : Fl → Fl) (stored : Fl) : Fl := g stored

/-- given in any unit: the stored value is `to_base` of the input (base factor 1), so the result is the
    storage type's function of the magnitude in radians -/
theorem trig_forward (f : Fmt) (g : Fl → Fl) (coef x : Fl) :
    angleFn g (toBase (flS f) coef (Fl.zero f true) (Fl.one f) x) = g (toBase (flS f) coef (Fl.zero f true) (Fl.one f) x) := rfl

/-- `Ratio::asin` etc. (src/si/ratio.rs): `Angle::new::<radian>(self.value.g())`; exp/ln…:
    `Ratio::new::<ratio>(self.value.g())`; `atan2`: `Angle::new::<radian>(self.value.atan2(other.value))` -/
def rewrap (f : Fmt) (unitCoef : Fl) (y : Fl) : Fl := toBase (flS f) unitCoef (Fl.zero f true) (Fl.one f) y

def unitCoefFl (q : QuantityDecl) (n : Str) (f : Fmt) : Option Fl := (q.findUnit n).map (fun u => u.coefFl f)

/-- the re-wrapping units are the identity units: `radian` and `ratio` have coefficient exactly 1.0
    in both float formats (kernel-evaluated from the regenerated table) -/
theorem identity_units :
    (unitCoefFl Gen.q_angle Gen.N.radian b64).map (Fl.toBits b64) = some 0x3ff0000000000000 ∧
    (unitCoefFl Gen.q_angle Gen.N.radian b32).map (Fl.toBits b32) = some 0x3f800000 ∧
    (unitCoefFl Gen.q_ratio Gen.N.ratio b64).map (Fl.toBits b64) = some 0x3ff0000000000000 ∧
    (unitCoefFl Gen.q_ratio Gen.N.ratio b32).map (Fl.toBits b32) = some 0x3f800000 ∧
    (unitCoefFl Gen.q_solid_angle Gen.N.steradian b64).map (Fl.toBits b64) = some 0x3ff0000000000000 := by
  decide +kernel

/-- hence the result of an inverse function / exponential / logarithm / atan2 is bit-identical to the
    storage type's function value (every canonical value: NaN, ±∞, ±0 included) -/
theorem rewrap_identity (f : Fmt) (hf : f.WF) (y : Fl) (hy : Fl.Canonical f y) : rewrap f (Fl.one f) y = y := by
  unfold rewrap
  have hz : (Fl.one f).isZero = false := by
    unfold Fl.one Fl.isZero
    have : 2 ^ (f.p - 1) ≠ 0 := Nat.pos_iff_ne_zero.mp (Nat.two_pow_pos _)
    split
    · rename_i h; injection h with _ hm _; exact absurd hm this
    · rfl
  exact Fl.toBase_id' hf y (Fl.one f) hy rfl hz

/-- dimensionless quantities have all exponents zero (so the base factor is a product of `c.powi(0) = 1`) -/
theorem dimensionless : Gen.q_angle.dim = [0, 0, 0, 0, 0, 0, 0] ∧ Gen.q_ratio.dim = [0, 0, 0, 0, 0, 0, 0] ∧
    Gen.q_solid_angle.dim = [0, 0, 0, 0, 0, 0, 0] := by decide +kernel

/-- the results are plain ratios / angles: trig returns the default kind, the inverse functions the angle kind -/
theorem kinds : Gen.q_ratio.kind = 0 ∧ Gen.q_angle.kind ≠ 0 ∧ Gen.q_angle.kind ≠ Gen.q_solid_angle.kind := by decide +kernel

/-! ### the published constants are exact (closed soft-float computations, kernel-evaluated) -/

def pi64 : Fl := Fl.ofBits b64 0x400921fb54442d18
def pi32 : Fl := Fl.ofBits b32 0x40490fdb

def readIn (f : Fmt) (q : QuantityDecl) (n : Str) (v : Fl) : Option Nat :=
  (q.findUnit n).map fun u => Fl.toBits f (fromBase (flS f) (u.coefFl f) (u.consFl f false) (Fl.one f) v)

/-- half turn = π rad = 180° = ½ revolution, for f64 and f32 -/
theorem half_turn :
    readIn b64 Gen.q_angle Gen.N.degree pi64 = some (Fl.toBits b64 (Fl.ofNat b64 180)) ∧
    readIn b32 Gen.q_angle Gen.N.degree pi32 = some (Fl.toBits b32 (Fl.ofNat b32 180)) ∧
    readIn b64 Gen.q_angle Gen.N.radian pi64 = some 0x400921fb54442d18 ∧
    readIn b64 Gen.q_angle Gen.N.revolution pi64 = some 0x3fe0000000000000 := by
  decide +kernel

/-- full turn (`2. * PI`) = one revolution = 360° -/
theorem full_turn :
    readIn b64 Gen.q_angle Gen.N.revolution (Fl.mul b64 (Fl.ofNat b64 2) pi64) = some 0x3ff0000000000000 ∧
    readIn b32 Gen.q_angle Gen.N.revolution (Fl.mul b32 (Fl.ofNat b32 2) pi32) = some 0x3f800000 ∧
    readIn b64 Gen.q_angle Gen.N.degree (Fl.mul b64 (Fl.ofNat b64 2) pi64) = some (Fl.toBits b64 (Fl.ofNat b64 360)) := by
  decide +kernel

/-- sphere (`4. * PI`) = 4π sr = one spat -/
theorem sphere :
    readIn b64 Gen.q_solid_angle Gen.N.spat (Fl.mul b64 (Fl.ofNat b64 4) pi64) = some 0x3ff0000000000000 ∧
    readIn b32 Gen.q_solid_angle Gen.N.spat (Fl.mul b32 (Fl.ofNat b32 4) pi32) = some 0x3f800000 ∧
    readIn b64 Gen.q_solid_angle Gen.N.steradian (Fl.mul b64 (Fl.ofNat b64 4) pi64) = some 0x402921fb54442d18 := by
  decide +kernel

/-! ### tie to the source: the function bodies regenerated from /repo/src on this run

`Gen.Body.*` below is what the translator read from the Rust source just now; `Body.run` evaluates it
over any storage type.  These theorems state the property's code path *for the regenerated bodies*:
they fail to check as soon as the source computes something else. -/
section SourceTie
open Uom.Body Uom.Gen.Body

/-- trigonometric functions of an angle apply the storage type's function to the *stored* value (radians
    in every base-unit set: the angle has no base-unit dependence) and wrap the result `into()` a ratio;
    inverse functions and `atan2` apply it to the stored value(s) and construct `Angle::new::<radian>`;
    `exp`, `ln`, … construct `Ratio::new::<ratio>` -/
theorem src_angle_ratio (N : NumTy) (env : Env N) (a b : N.S.V) :
    run N env si_angle_inherent_Angle_sin [argQ a] = env.fwd m_into [env.fwd m_sin [argV a]] ∧
    run N env si_angle_inherent_Angle_cos [argQ a] = env.fwd m_into [env.fwd m_cos [argV a]] ∧
    run N env si_angle_inherent_Angle_tan [argQ a] = env.fwd m_into [env.fwd m_tan [argV a]] ∧
    run N env si_angle_inherent_Angle_sinh [argQ a] = env.fwd m_into [env.fwd m_sinh [argV a]] ∧
    run N env si_angle_inherent_Angle_cosh [argQ a] = env.fwd m_into [env.fwd m_cosh [argV a]] ∧
    run N env si_angle_inherent_Angle_tanh [argQ a] = env.fwd m_into [env.fwd m_tanh [argV a]] ∧
    run N env si_ratio_inherent_Ratio_asin [argQ a] = env.ext f_Angle_new_radian [env.fwd m_asin [argV a]] ∧
    run N env si_ratio_inherent_Ratio_acos [argQ a] = env.ext f_Angle_new_radian [env.fwd m_acos [argV a]] ∧
    run N env si_ratio_inherent_Ratio_atan [argQ a] = env.ext f_Angle_new_radian [env.fwd m_atan [argV a]] ∧
    run N env si_ratio_inherent_Ratio_asinh [argQ a] = env.ext f_Angle_new_radian [env.fwd m_asinh [argV a]] ∧
    run N env si_ratio_inherent_Ratio_acosh [argQ a] = env.ext f_Angle_new_radian [env.fwd m_acosh [argV a]] ∧
    run N env si_ratio_inherent_Ratio_atanh [argQ a] = env.ext f_Angle_new_radian [env.fwd m_atanh [argV a]] ∧
    run N env si_angle_inherent_Quantity_atan2 [argQ a, argQ b] = env.ext f_Angle_new_radian [env.fwd m_atan2 [argV a, argV b]] ∧
    run N env si_ratio_inherent_Ratio_exp [argQ a] = env.ext f_Ratio_new_ratio [env.fwd m_exp [argV a]] ∧
    run N env si_ratio_inherent_Ratio_exp2 [argQ a] = env.ext f_Ratio_new_ratio [env.fwd m_exp2 [argV a]] ∧
    run N env si_ratio_inherent_Ratio_ln [argQ a] = env.ext f_Ratio_new_ratio [env.fwd m_ln [argV a]] ∧
    run N env si_ratio_inherent_Ratio_log2 [argQ a] = env.ext f_Ratio_new_ratio [env.fwd m_log2 [argV a]] ∧
    run N env si_ratio_inherent_Ratio_log10 [argQ a] = env.ext f_Ratio_new_ratio [env.fwd m_log10 [argV a]] ∧
    run N env si_ratio_inherent_Ratio_exp_m1 [argQ a] = env.ext f_Ratio_new_ratio [env.fwd m_exp_m1 [argV a]] ∧
    run N env si_ratio_inherent_Ratio_ln_1p [argQ a] = env.ext f_Ratio_new_ratio [env.fwd m_ln_1p [argV a]] ∧
    run N env si_ratio_inherent_Ratio_log [argQ a, argV b] = env.ext f_Ratio_new_ratio [env.fwd m_log [argV a, argV b]] :=
  ⟨rfl, rfl, rfl, rfl, rfl, rfl, rfl, rfl, rfl, rfl, rfl, rfl, rfl, rfl, rfl, rfl, rfl, rfl, rfl, rfl, rfl⟩

end SourceTie

/-! ### tie to the source: `Angle::sin_cos` (tuple pattern; Rx form) regenerated from /repo/src/si/angle.rs -/
section SourceTieRx
open Uom.Rx Uom.Gen.RxBody Uom.BodyEq.TrigRx

/-- `sin_cos` returns (sine, cosine) of the *stored* magnitude, in that order, each re-wrapped as a ratio -/
theorem src_sin_cos {V : Type} (sc : V → V × V) (x : V) :
    run (envSinCos sc) si_angle_inherent_Angle_sin_cos [.host (.ang x)] =
      (.val (.tup2 (.host (.ratio (sc x).1)) (.host (.ratio (sc x).2))), []) := sin_cos_eq sc x

end SourceTieRx

end Uom.C18
