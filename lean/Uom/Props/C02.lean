import Uom.Model.Dim
import Uom.Gen.Table
/-!
# C02 — dimensionally or kind-wise invalid programs are rejected at compile time

`accepts e f A B` is the acceptance relation read off the `impl` headers of src/system.rs, the
marker bounds (`D::Kind: marker::Add` …), the explicit temperature impls of src/si and the
`impl_from!` list.  `siEnv` is built from the tables regenerated on every run.  The rustc probes of
the correspondence run compare the compiler's verdict with `accepts` for every form and class pair.
-/
namespace Uom.C02
open Uom

def siEnv : TyEnv :=
  { kinds := Gen.kinds, implFrom := Gen.implFrom,
    tt := ⟨Gen.q_thermodynamic_temperature.dim, Gen.q_thermodynamic_temperature.kind⟩,
    ti := ⟨Gen.q_temperature_interval.dim, Gen.q_temperature_interval.kind⟩ }

/-- **additive forms**: accepted iff both operands have the same dimension *and* kind and the kind allows
    the operation — or the pair is one of the explicit temperature impls -/
theorem add_iff (e : TyEnv) (A B : QTy) (m : Bool) :
    accepts e .add A B m = true ↔ (A = B ∧ e.has A.kind mAdd = true) ∨ (A = e.tt ∧ B = e.ti) ∨ (A = e.ti ∧ B = e.tt) := by
  simp [accepts, or_assoc]

theorem sub_iff (e : TyEnv) (A B : QTy) (m : Bool) :
    accepts e .sub A B m = true ↔ (A = B ∧ e.has A.kind mSub = true) ∨ (A = e.tt ∧ B = e.ti) := by
  simp [accepts]

theorem rem_iff (e : TyEnv) (A B : QTy) (m : Bool) :
    accepts e .rem A B m = true ↔ (A = B ∧ e.has A.kind mRem = true) := by
  simp [accepts]

/-- **comparison, ordering, binding, hypot, atan2**: accepted iff the two types are identical -/
theorem cmp_iff (e : TyEnv) (f : Form) (hf : f ∈ [.eq, .lt, .pcmp, .ordmax, .letbind, .hypot, .atan2]) (A B : QTy) (m : Bool) :
    accepts e f A B m = true ↔ A = B := by
  simp only [List.mem_cons, List.not_mem_nil, or_false] at hf
  rcases hf with rfl | rfl | rfl | rfl | rfl | rfl | rfl <;> simp [accepts]

/-- in particular: different dimension or different kind ⇒ rejected -/
theorem cmp_rejects (e : TyEnv) (f : Form) (hf : f ∈ [.eq, .lt, .pcmp, .ordmax, .letbind, .hypot, .atan2]) (A B : QTy) (m : Bool)
    (h : A.dim ≠ B.dim ∨ A.kind ≠ B.kind) : accepts e f A B m = false := by
  have : ¬ A = B := by
    rintro rfl; rcases h with h | h <;> exact h rfl
  rw [← Bool.not_eq_true, cmp_iff e f hf]; exact this

/-- a unit of another quantity is rejected by `new` and `get` -/
theorem unit_iff (e : TyEnv) (A B : QTy) (m : Bool) :
    (accepts e .newf A B m = true ↔ m = true) ∧ (accepts e .getf A B m = true ↔ m = true) := by
  simp [accepts]

/-- a root is accepted iff every exponent is divisible (and the kind allows division) -/
theorem root_iff (e : TyEnv) (A B : QTy) (m : Bool) :
    accepts e .sqrt A B m = true ↔ ((∀ d ∈ A.dim, d % 2 = 0) ∧ e.has A.kind mDiv = true) := by
  simp only [accepts, Bool.and_eq_true]
  constructor
  · rintro ⟨h1, h2⟩
    refine ⟨?_, h2⟩
    unfold outRoot at h1
    split at h1
    · rename_i h; intro d hd; simpa using (List.all_eq_true.mp h) d hd
    · simp at h1
  · rintro ⟨h1, h2⟩
    refine ⟨?_, h2⟩
    unfold outRoot
    have : (A.dim.all fun d => d % 2 == 0) = true := by
      rw [List.all_eq_true]; intro d hd; simpa using h1 d hd
    simp [this]

/-- conversions: identical types (reflexive `From`), or same exponents and an `impl_from!` instance -/
theorem from_iff (e : TyEnv) (A B : QTy) (m : Bool) :
    accepts e .from_ A B m = true ↔ (A = B ∨ (A.dim = B.dim ∧ (A.kind, B.kind) ∈ e.implFrom)) := by
  simp [accepts, List.contains_iff_mem]

/-! ### the generated SI (kernel-decided on the regenerated tables) -/

/-- two temperature points can be neither added nor subtracted; point ± interval and interval + point
    are the only cross-kind additive programs; interval − point is rejected -/
theorem temperature_arithmetic :
    accepts siEnv .add siEnv.tt siEnv.tt true = false ∧ accepts siEnv .sub siEnv.tt siEnv.tt true = false ∧
    accepts siEnv .adda siEnv.tt siEnv.tt true = false ∧ accepts siEnv .neg siEnv.tt siEnv.tt true = false ∧
    accepts siEnv .add siEnv.tt siEnv.ti true = true ∧ accepts siEnv .sub siEnv.tt siEnv.ti true = true ∧
    accepts siEnv .add siEnv.ti siEnv.tt true = true ∧ accepts siEnv .sub siEnv.ti siEnv.tt true = false ∧
    accepts siEnv .adda siEnv.tt siEnv.ti true = true ∧ accepts siEnv .adda siEnv.ti siEnv.tt true = false ∧
    accepts siEnv .rem siEnv.tt siEnv.tt true = true ∧ accepts siEnv .eq siEnv.tt siEnv.tt true = true := by
  decide +kernel

/-- the temperature kind is the only kind without `Add`; every other kind has all twelve markers -/
theorem only_temperature_lacks_add :
    (Gen.kinds.zipIdx.all fun (k, i) => (k.markers.contains mAdd) == (i != siEnv.tt.kind)) = true ∧
    (Gen.kinds.zipIdx.all fun (k, i) => i == siEnv.tt.kind || k.markers.length == 12) = true := by
  decide +kernel

/-- for every pair of SI quantities of different (dimension, kind) class, every symmetric form is rejected
    and additive forms are rejected outside the temperature pair — decided for all 115 × 115 pairs -/
theorem si_pairs_rejected :
    (Gen.table.all fun a => Gen.table.all fun b =>
      let A : QTy := ⟨a.dim, a.kind⟩
      let B : QTy := ⟨b.dim, b.kind⟩
      A = B ||
        ([Form.eq, .lt, .pcmp, .ordmax, .letbind, .hypot, .atan2, .rem, .rema].all fun f => !accepts siEnv f A B false) &&
        ([Form.add, .sub, .adda, .suba].all fun f =>
          !accepts siEnv f A B false || (A = siEnv.tt && B = siEnv.ti) || (f == .add && A = siEnv.ti && B = siEnv.tt))) = true := by
  decide +kernel

end Uom.C02
