import Uom.Model.Dim
import Uom.Gen.Table
import Uom.Gen.Sigs
/-!
# C02 — dimensionally or kind-wise invalid programs are rejected at compile time

`accepts e f A B` is the acceptance relation read off the `impl` headers of src/system.rs, the
marker bounds (`D::Kind: marker::Add` …), the explicit temperature impls of src/si and the
`impl_from!` list.  `siEnv` is built from the tables regenerated on every run.  The rustc probes of
the correspondence run compare the compiler's verdict with `accepts` for every form and class pair.
-/
namespace Uom.C02
open Uom

def siEnv : TyEnv :=
  { kinds := Gen.kinds, implFrom := Gen.implFrom,
    tt := ⟨Gen.q_thermodynamic_temperature.dim, Gen.q_thermodynamic_temperature.kind⟩,
    ti := ⟨Gen.q_temperature_interval.dim, Gen.q_temperature_interval.kind⟩ }

/-- **additive forms**: accepted iff both operands have the same dimension *and* kind and the kind allows
    the operation — or the pair is one of the explicit temperature impls -/
theorem add_iff (e : TyEnv) (A B : QTy) (m : Bool) :
    accepts e .add A B m = true ↔ (A = B ∧ e.has A.kind mAdd = true) ∨ (A = e.tt ∧ B = e.ti) ∨ (A = e.ti ∧ B = e.tt) := by
  simp [accepts, or_assoc]

theorem sub_iff (e : TyEnv) (A B : QTy) (m : Bool) :
    accepts e .sub A B m = true ↔ (A = B ∧ e.has A.kind mSub = true) ∨ (A = e.tt ∧ B = e.ti) := by
  simp [accepts]

theorem rem_iff (e : TyEnv) (A B : QTy) (m : Bool) :
    accepts e .rem A B m = true ↔ (A = B ∧ e.has A.kind mRem = true) := by
  simp [accepts]

/-- **saturating arithmetic and `Sum`** are additive arithmetic under another name: same type and the
    kind's `Saturating` / `Add` marker (so two temperature points cannot be combined this way either) -/
theorem sat_iff (e : TyEnv) (A B : QTy) (m : Bool) :
    (accepts e .satadd A B m = true ↔ (A = B ∧ e.has A.kind mSaturating = true)) ∧
    (accepts e .satsub A B m = true ↔ (A = B ∧ e.has A.kind mSaturating = true)) ∧
    (accepts e .sum A B m = true ↔ (A = B ∧ e.has A.kind mAdd = true)) := by
  simp [accepts]

/-- **comparison, ordering, binding, hypot, atan2**: accepted iff the two types are identical -/
theorem cmp_iff (e : TyEnv) (f : Form) (hf : f ∈ [.eq, .lt, .pcmp, .ordmax, .letbind, .hypot, .atan2]) (A B : QTy) (m : Bool) :
    accepts e f A B m = true ↔ A = B := by
  simp only [List.mem_cons, List.not_mem_nil, or_false] at hf
  rcases hf with rfl | rfl | rfl | rfl | rfl | rfl | rfl <;> simp [accepts]

/-- in particular: different dimension or different kind ⇒ rejected -/
theorem cmp_rejects (e : TyEnv) (f : Form) (hf : f ∈ [.eq, .lt, .pcmp, .ordmax, .letbind, .hypot, .atan2]) (A B : QTy) (m : Bool)
    (h : A.dim ≠ B.dim ∨ A.kind ≠ B.kind) : accepts e f A B m = false := by
  have : ¬ A = B := by
    rintro rfl; rcases h with h | h <;> exact h rfl
  rw [← Bool.not_eq_true, cmp_iff e f hf]; exact this

/-- a unit of another quantity is rejected by `new` and `get` -/
theorem unit_iff (e : TyEnv) (A B : QTy) (m : Bool) :
    (accepts e .newf A B m = true ↔ m = true) ∧ (accepts e .getf A B m = true ↔ m = true) ∧
    (accepts e .fmtargs A B m = true ↔ m = true) ∧ (accepts e .fmtwith A B m = true ↔ m = true) ∧
    (accepts e .floorf A B m = true ↔ m = true) := by
  simp [accepts]

/-- a root is accepted iff every exponent is divisible (and the kind allows division) -/
theorem root_iff (e : TyEnv) (A B : QTy) (m : Bool) :
    accepts e .sqrt A B m = true ↔ ((∀ d ∈ A.dim, d % 2 = 0) ∧ e.has A.kind mDiv = true) := by
  simp only [accepts, Bool.and_eq_true]
  constructor
  · rintro ⟨h1, h2⟩
    refine ⟨?_, h2⟩
    unfold outRoot at h1
    split at h1
    · rename_i h; intro d hd; simpa using (List.all_eq_true.mp h) d hd
    · simp at h1
  · rintro ⟨h1, h2⟩
    refine ⟨?_, h2⟩
    unfold outRoot
    have : (A.dim.all fun d => d % 2 == 0) = true := by
      rw [List.all_eq_true]; intro d hd; simpa using h1 d hd
    simp [this]

/-- conversions: identical types (reflexive `From`), or same exponents and an `impl_from!` instance -/
theorem from_iff (e : TyEnv) (A B : QTy) (m : Bool) :
    accepts e .from_ A B m = true ↔ (A = B ∨ (A.dim = B.dim ∧ (A.kind, B.kind) ∈ e.implFrom)) := by
  simp [accepts, List.contains_iff_mem]

/-! ### the generated SI (kernel-decided on the regenerated tables) -/

/-- two temperature points can be neither added nor subtracted; point ± interval and interval + point
    are the only cross-kind additive programs; interval − point is rejected -/
theorem temperature_arithmetic :
    accepts siEnv .add siEnv.tt siEnv.tt true = false ∧ accepts siEnv .sub siEnv.tt siEnv.tt true = false ∧
    accepts siEnv .adda siEnv.tt siEnv.tt true = false ∧ accepts siEnv .neg siEnv.tt siEnv.tt true = false ∧
    accepts siEnv .add siEnv.tt siEnv.ti true = true ∧ accepts siEnv .sub siEnv.tt siEnv.ti true = true ∧
    accepts siEnv .add siEnv.ti siEnv.tt true = true ∧ accepts siEnv .sub siEnv.ti siEnv.tt true = false ∧
    accepts siEnv .adda siEnv.tt siEnv.ti true = true ∧ accepts siEnv .adda siEnv.ti siEnv.tt true = false ∧
    accepts siEnv .rem siEnv.tt siEnv.tt true = true ∧ accepts siEnv .eq siEnv.tt siEnv.tt true = true ∧
    accepts siEnv .satadd siEnv.tt siEnv.tt true = false ∧ accepts siEnv .satsub siEnv.tt siEnv.tt true = false ∧
    accepts siEnv .sum siEnv.tt siEnv.tt true = false ∧ accepts siEnv .satadd siEnv.ti siEnv.ti true = true := by
  decide +kernel

/-- the temperature kind is the only kind without `Add`; every other kind has all twelve markers -/
theorem only_temperature_lacks_add :
    (Gen.kinds.zipIdx.all fun (k, i) => (k.markers.contains mAdd) == (i != siEnv.tt.kind)) = true ∧
    (Gen.kinds.zipIdx.all fun (k, i) => i == siEnv.tt.kind || k.markers.length == 12) = true := by
  decide +kernel

/-- for every pair of SI quantities of different (dimension, kind) class, every symmetric form is rejected
    and additive forms are rejected outside the temperature pair — decided for all 115 × 115 pairs -/
theorem si_pairs_rejected :
    (Gen.table.all fun a => Gen.table.all fun b =>
      let A : QTy := ⟨a.dim, a.kind⟩
      let B : QTy := ⟨b.dim, b.kind⟩
      A = B ||
        ([Form.eq, .lt, .pcmp, .ordmax, .letbind, .hypot, .atan2, .rem, .rema].all fun f => !accepts siEnv f A B false) &&
        ([Form.add, .sub, .adda, .suba].all fun f =>
          !accepts siEnv f A B false || (A = siEnv.tt && B = siEnv.ti) || (f == .add && A = siEnv.ti && B = siEnv.tt))) = true := by
  decide +kernel

/-! ### tie to the source: the trait bounds regenerated from /repo/src on this run

For each operator the regenerated signature says (a) which dimension parameter the two operands carry
— the *same* parameter `D` for the additive, remainder, comparison, `hypot`, `max`/`min` forms, so the
operand types must be identical —, and (b) the `where` bounds; `Sig.holds` evaluates the bounds over
the generated kind table.  These are exactly the clauses of `accepts`. -/
section SourceTie
open Uom.Body Uom.Sig Uom.Gen.Sig

/-- both operands are typed with the same dimension parameter (hence `A = B` in `accepts`) -/
theorem src_same_dimension_parameter :
    (system_Add_Quantity_for_Quantity_add_auto.lhs = some .D ∧ system_Add_Quantity_for_Quantity_add_auto.rhs = some .D) ∧
    (system_Add_for_Quantity_add_noauto.lhs = some .D ∧ system_Add_for_Quantity_add_noauto.rhs = some .D) ∧
    (system_Sub_Quantity_for_Quantity_sub_auto.lhs = some .D ∧ system_Sub_Quantity_for_Quantity_sub_auto.rhs = some .D) ∧
    (system_Sub_for_Quantity_sub_noauto.lhs = some .D ∧ system_Sub_for_Quantity_sub_noauto.rhs = some .D) ∧
    (system_Rem_Quantity_for_Quantity_rem_auto.lhs = some .D ∧ system_Rem_Quantity_for_Quantity_rem_auto.rhs = some .D) ∧
    (system_Rem_for_Quantity_rem_noauto.lhs = some .D ∧ system_Rem_for_Quantity_rem_noauto.rhs = some .D) ∧
    (system_AddAssign_Quantity_for_Quantity_add_assign_auto.lhs = some .D ∧ system_AddAssign_Quantity_for_Quantity_add_assign_auto.rhs = some .D) ∧
    (system_SubAssign_Quantity_for_Quantity_sub_assign_auto.lhs = some .D ∧ system_SubAssign_Quantity_for_Quantity_sub_assign_auto.rhs = some .D) ∧
    (system_RemAssign_Quantity_for_Quantity_rem_assign_auto.lhs = some .D ∧ system_RemAssign_Quantity_for_Quantity_rem_assign_auto.rhs = some .D) ∧
    (system_PartialEq_Quantity_for_Quantity_eq_auto.lhs = some .D ∧ system_PartialEq_Quantity_for_Quantity_eq_auto.rhs = some .D) ∧
    (system_PartialEq_for_Quantity_eq_noauto.lhs = some .D ∧ system_PartialEq_for_Quantity_eq_noauto.rhs = some .D) ∧
    (system_PartialOrd_Quantity_for_Quantity_partial_cmp_auto.lhs = some .D ∧ system_PartialOrd_Quantity_for_Quantity_partial_cmp_auto.rhs = some .D) ∧
    (system_PartialOrd_for_Quantity_partial_cmp_noauto.lhs = some .D ∧ system_PartialOrd_for_Quantity_partial_cmp_noauto.rhs = some .D) ∧
    (system_Ord_for_Quantity_max.lhs = some .D ∧ system_Ord_for_Quantity_max.rhs = some .D) ∧
    (system_inherent_Quantity_hypot_auto.lhs = some .D ∧ system_inherent_Quantity_hypot_auto.rhs = some .D) ∧
    (system_inherent_Quantity_hypot_noauto.lhs = some .D ∧ system_inherent_Quantity_hypot_noauto.rhs = some .D) ∧
    (si_angle_inherent_Quantity_atan2.lhs = some .D ∧ si_angle_inherent_Quantity_atan2.rhs = some .D) := by
  decide

/-- the kind bounds are exactly the marker the `accepts` clause asks for -/
theorem src_kind_bounds (te : TyEnv) (env : TyP → QTy) :
    system_Add_Quantity_for_Quantity_add_auto.holds te env = te.has (env .D).kind mAdd ∧
    system_Add_for_Quantity_add_noauto.holds te env = te.has (env .D).kind mAdd ∧
    system_Sub_Quantity_for_Quantity_sub_auto.holds te env = te.has (env .D).kind mSub ∧
    system_Sub_for_Quantity_sub_noauto.holds te env = te.has (env .D).kind mSub ∧
    system_Rem_Quantity_for_Quantity_rem_auto.holds te env = te.has (env .D).kind mRem ∧
    system_Rem_for_Quantity_rem_noauto.holds te env = te.has (env .D).kind mRem ∧
    system_AddAssign_Quantity_for_Quantity_add_assign_auto.holds te env = te.has (env .D).kind mAddAssign ∧
    system_AddAssign_for_Quantity_add_assign_noauto.holds te env = te.has (env .D).kind mAddAssign ∧
    system_SubAssign_Quantity_for_Quantity_sub_assign_auto.holds te env = te.has (env .D).kind mSubAssign ∧
    system_SubAssign_for_Quantity_sub_assign_noauto.holds te env = te.has (env .D).kind mSubAssign ∧
    system_RemAssign_Quantity_for_Quantity_rem_assign_auto.holds te env = te.has (env .D).kind mRemAssign ∧
    system_RemAssign_for_Quantity_rem_assign_noauto.holds te env = te.has (env .D).kind mRemAssign ∧
    system_Neg_for_Quantity_neg.holds te env = te.has (env .D).kind mNeg ∧
    system_Saturating_for_Quantity_saturating_add.holds te env = te.has (env .D).kind mSaturating ∧
    system_Saturating_for_Quantity_saturating_sub.holds te env = te.has (env .D).kind mSaturating ∧
    system_Sum_for_Quantity_sum.holds te env = te.has (env .D).kind mAdd := by
  simp [Sig.holds, system_Add_Quantity_for_Quantity_add_auto, system_Add_for_Quantity_add_noauto,
    system_Sub_Quantity_for_Quantity_sub_auto, system_Sub_for_Quantity_sub_noauto,
    system_Rem_Quantity_for_Quantity_rem_auto, system_Rem_for_Quantity_rem_noauto,
    system_AddAssign_Quantity_for_Quantity_add_assign_auto, system_AddAssign_for_Quantity_add_assign_noauto,
    system_SubAssign_Quantity_for_Quantity_sub_assign_auto, system_SubAssign_for_Quantity_sub_assign_noauto,
    system_RemAssign_Quantity_for_Quantity_rem_assign_auto, system_RemAssign_for_Quantity_rem_assign_noauto,
    system_Neg_for_Quantity_neg, system_Saturating_for_Quantity_saturating_add, system_Saturating_for_Quantity_saturating_sub,
    system_Sum_for_Quantity_sum, mAdd, mSub, mRem, mAddAssign, mSubAssign, mRemAssign, mNeg, mSaturating]

/-- comparisons, `hypot`, `max`/`min`, `atan2` carry no kind bound at all: identical types suffice -/
theorem src_comparisons_unbounded (te : TyEnv) (env : TyP → QTy) :
    system_PartialEq_Quantity_for_Quantity_eq_auto.holds te env = true ∧
    system_PartialEq_for_Quantity_eq_noauto.holds te env = true ∧
    system_PartialOrd_Quantity_for_Quantity_partial_cmp_auto.holds te env = true ∧
    system_PartialOrd_for_Quantity_partial_cmp_noauto.holds te env = true ∧
    system_Ord_for_Quantity_max.holds te env = true ∧
    system_inherent_Quantity_hypot_auto.holds te env = true ∧
    system_inherent_Quantity_hypot_noauto.holds te env = true ∧
    si_angle_inherent_Quantity_atan2.holds te env = true :=
  ⟨rfl, rfl, rfl, rfl, rfl, rfl, rfl, rfl⟩

/-- roots: the bounds hold iff every exponent is divisible and the kind allows division — the `.sqrt` /
    `.cbrt` clauses of `accepts` -/
theorem src_root_bounds (te : TyEnv) (env : TyP → QTy) :
    system_inherent_Quantity_sqrt.holds te env = ((outRoot 2 (env .D)).isSome && te.has (env .D).kind mDiv) ∧
    system_inherent_Quantity_cbrt.holds te env = ((outRoot 3 (env .D)).isSome && te.has (env .D).kind mDiv) := by
  constructor <;>
  · simp only [Sig.holds, system_inherent_Quantity_sqrt, system_inherent_Quantity_cbrt, List.all_cons, List.all_nil,
      Bool.and_true, symBoundHolds, outRoot, mDiv]
    split <;> simp_all [Bool.and_comm]

end SourceTie

/-- by-reference operands are never accepted: there is no impl taking `&Quantity` (so `slice.iter().sum()`,
    `a + &b`, `a -= &b` cannot combine two temperature points either); the inventory theorem below is what
    ties "there is no such impl" to the source -/
theorem by_reference_rejected (e : TyEnv) (A B : QTy) (m : Bool) :
    accepts e .sumref A B m = false ∧ accepts e .addref A B m = false ∧
    accepts e .subref A B m = false ∧ accepts e .addaref A B m = false := ⟨rfl, rfl, rfl, rfl⟩

/-! ### tie to the source, closed world: the inventory of `impl` headers regenerated on this run

The acceptance relation above speaks about the impls it knows.  An impl *added* to the macro files (say a
by-reference `Sum`, a `Product`, an `AddAssign<&Self>`) would open a new way to combine quantities that no
clause mentions.  `Gen.Sig.implInventory` lists every `impl` header the translator found in
src/system.rs (with `impl_ops!` inlined), src/quantity.rs and the special impls of src/si, with the
`D::Kind: marker::M` bounds of its `where` clause.  The theorem: every impl is one the model knows, and it
carries the marker bound the model expects of it (`none`: comparison / copying / formatting / hashing /
serialization / the explicit temperature impls / kind conversions need no marker). -/
section Inventory
open Uom.Gen.Sig

def mMul := 4
def mMulAssign := 5
def mDivAssign := 7

def implRequirement : List (Nat × Option Nat) := [
  (impl_inherent_Quantity, none), (impl_Clone_for_Quantity, none), (impl_Copy_for_Quantity, none),
  (impl_Debug_for_Quantity, none), (impl_Default_for_Quantity, none), (impl_Eq_for_Quantity, none),
  (impl_Hash_for_Quantity, none), (impl_Ord_for_Quantity, none),
  (impl_PartialEq_Quantity_for_Quantity, none), (impl_PartialEq_for_Quantity, none),
  (impl_PartialOrd_Quantity_for_Quantity, none), (impl_PartialOrd_for_Quantity, none),
  (impl_Test_for_Quantity, none), (impl_ConstZero_for_Quantity, none),
  (impl_Serialize_for_Quantity, none), (impl_Deserialize_for_Quantity, none),
  (impl_Clone_for_Arguments, none), (impl_Copy_for_Arguments, none), (impl_Clone_for_QuantityArguments, none),
  (impl_Copy_for_QuantityArguments, none), (impl_style_for_QuantityArguments, none),
  (impl_From_Quantity_for_Quantity, none),
  (impl_Add_TemperatureInterval_for_ThermodynamicTemperature, none),
  (impl_AddAssign_TemperatureInterval_for_ThermodynamicTemperature, none),
  (impl_Sub_TemperatureInterval_for_ThermodynamicTemperature, none),
  (impl_SubAssign_TemperatureInterval_for_ThermodynamicTemperature, none),
  (impl_Add_ThermodynamicTemperature_for_TemperatureInterval, none),
  (impl_inherent_Angle, none), (impl_inherent_Ratio, none), (impl_From_V_for_Ratio, none), (impl_From_Ratio_for_V, none),
  (impl_TryFrom_Time_for_Duration, none), (impl_TryFrom_Duration_for_Time, none),
  (impl_inherent_Units, none), (impl_inherent_quantity, none), (impl_inherent_Arguments, none),
  (impl_FromStr_for_quantity, none),
  (impl_Neg_for_Quantity, some mNeg),
  (impl_Rem_Quantity_for_Quantity, some mRem), (impl_Rem_for_Quantity, some mRem),
  (impl_RemAssign_Quantity_for_Quantity, some mRemAssign), (impl_RemAssign_for_Quantity, some mRemAssign),
  (impl_Saturating_for_Quantity, some mSaturating),
  (impl_Sum_for_Quantity, some mAdd), (impl_Zero_for_Quantity, some mAdd),
  (impl_Add_Quantity_for_Quantity, some mAdd), (impl_Add_for_Quantity, some mAdd),
  (impl_AddAssign_Quantity_for_Quantity, some mAddAssign), (impl_AddAssign_for_Quantity, some mAddAssign),
  (impl_Sub_Quantity_for_Quantity, some mSub), (impl_Sub_for_Quantity, some mSub),
  (impl_SubAssign_Quantity_for_Quantity, some mSubAssign), (impl_SubAssign_for_Quantity, some mSubAssign),
  (impl_Mul_Quantity_for_Quantity, some mMul), (impl_Mul_V_for_Quantity, some mMul), (impl_Mul_Quantity_for_V, some mMul),
  (impl_MulAssign_V_for_Quantity, some mMulAssign),
  (impl_Div_Quantity_for_Quantity, some mDiv), (impl_Div_V_for_Quantity, some mDiv), (impl_Div_Quantity_for_V, some mDiv),
  (impl_DivAssign_V_for_Quantity, some mDivAssign)]

def implRowOk (r : Nat × List Nat) : Bool :=
  match implRequirement.lookup r.1 with
  | some (some m) => r.2.all (· == m) && !r.2.isEmpty
  | some none => r.2.isEmpty
  | none => false

/-- **closed world**: no impl outside the model's list, and each carries exactly the marker bound expected -/
theorem src_impl_inventory : implInventory.all implRowOk = true := by decide +kernel

/-- non-vacuity: the inventory is not empty and contains the by-value `Sum` with the `Add` marker -/
example : (impl_Sum_for_Quantity, [mAdd]) ∈ implInventory := by decide +kernel

end Inventory

end Uom.C02
