import Uom.Model.Conv
import Uom.Proofs.BodyEq.Serde
import Uom.Proofs.BodyEq.SerdeRx
/-!
# C13 — serialization is transparent and round-trips

`Serialize for Quantity` is `self.value.serialize(serializer)`; `Deserialize` deserializes a `V` and
wraps it (src/system.rs, `serde!` block).  Parametric in the data format: `ser : V → Tok` is the
storage type's serialization into any format, `de : Tok → Option V` its deserialization.  Dimension
and base units are phantom: they cannot influence either direction.  The theorems are thin; the
correspondence run checks the real impls against two serde data formats.
-/
namespace Uom.C13

/-- a quantity: the stored value (dimension, base units are phantom type parameters) -/
structure Q (V : Type) where
  value : V
deriving DecidableEq

def serQ {V Tok : Type} (ser : V → Tok) (q : Q V) : Tok := ser q.value
def deQ {V Tok : Type} (de : Tok → Option V) (t : Tok) : Option (Q V) := (de t).map Q.mk

/-- serializes to exactly what its stored value (in its base units) serializes to -/
theorem ser_transparent {V Tok : Type} (ser : V → Tok) (q : Q V) : serQ ser q = ser q.value := rfl

/-- deserializes from exactly what the storage type deserializes from, to the wrapped value -/
theorem de_transparent {V Tok : Type} (de : Tok → Option V) (t : Tok) (v : V) :
    deQ de t = some ⟨v⟩ ↔ de t = some v := by
  unfold deQ
  constructor
  · intro h
    cases hd : de t with
    | none => simp [hd] at h
    | some w => simp [hd] at h; rw [h]
  · intro h; simp [h]

/-- rejects exactly what the storage type rejects -/
theorem rejects_iff {V Tok : Type} (de : Tok → Option V) (t : Tok) : deQ de t = none ↔ de t = none := by
  unfold deQ; simp

/-- round trip, whenever the storage type round-trips that value -/
theorem roundtrip {V Tok : Type} (ser : V → Tok) (de : Tok → Option V) (q : Q V)
    (h : de (ser q.value) = some q.value) : deQ de (serQ ser q) = some q := by
  unfold deQ serQ; simp [h]

/-! ### tie to the source: the function bodies regenerated from /repo/src on this run

`Gen.Body.*` below is what the translator read from the Rust source just now; `Body.run` evaluates it
over any storage type.  These theorems state the property's code path *for the regenerated bodies*:
they fail to check as soon as the source computes something else. -/
section SourceTie
open Uom.Body Uom.Gen.Body

theorem src_serialize (N : NumTy) (env : Env N) (a : N.S.V) (ser : Val N) :
    run N env system_Serialize_for_Quantity_serialize [argQ a, ser] = env.fwd m_serialize [argV a, ser] :=
  BodyEq.serialize_eq N env a ser
theorem src_deserialize (N : NumTy) (env : Env N) (d : Val N) :
    run N env system_Deserialize_for_Quantity_deserialize [d]
      = env.ext f_Ok [(env.fwd m_try [env.ext f_serde_Deserialize_deserialize [d]]).asQuantity] :=
  BodyEq.deserialize_eq N env d

end SourceTie

/-! ### tie to the source, with `?` interpreted (Rx form of the two bodies, regenerated on this run) -/
section SourceTieRx
open Uom.Rx Uom.Gen.RxBody Uom.BodyEq.SerdeRx

/-- for **every** serde data format (`serV`: what the storage type writes to a serializer; `deV`: what it reads from a
    deserializer, or its error): the quantity writes what its stored value writes … -/
theorem src_serialize_rx {V S D O E : Type} (serV : V → S → O) (deV : D → Except E V) (x : V) (s : S) :
    run (envSerde serV deV) system_Serialize_for_Quantity_serialize [.host (.q x), .host (.ser s)] =
      (.val (.host (.out (serV x s))), []) := serialize_eq serV deV x s

/-- … and reads exactly what the storage type reads: `Ok` of the wrapped value iff the storage type succeeds,
    otherwise the storage type's own error, unchanged -/
theorem src_deserialize_rx {V S D O E : Type} (serV : V → S → O) (deV : D → Except E V) (d : D) :
    run (envSerde serV deV) system_Deserialize_for_Quantity_deserialize [.host (.de d)] =
      (match deV d with
       | .ok x => .val (.ctor1 cOk (.host (.q x)))
       | .error e => .val (.ctor1 cErr (.host (.err e))), []) := deserialize_eq serV deV d

/-- round trip: whenever the format round-trips the stored value, it round-trips the quantity -/
theorem src_roundtrip_rx {V S D O E : Type} (serV : V → S → O) (deV : D → Except E V) (feed : O → D) (x : V) (s : S)
    (hrt : deV (feed (serV x s)) = .ok x) :
    run (envSerde serV deV) system_Deserialize_for_Quantity_deserialize [.host (.de (feed (serV x s)))] =
      (.val (.ctor1 cOk (.host (.q x))), []) := by
  rw [deserialize_eq, hrt]

end SourceTieRx

end Uom.C13
