import Uom.Model.Fold
import Uom.Proofs.FlConvIdentity
import Uom.Proofs.FoldCorrect
import Uom.Gen.Layout
import Uom.Gen.Bodies
/-!
# C04 — quantities are a zero-cost, transparent wrapper over the storage type (claimed partial)

What Lean can prove is (a) the *layout description* regenerated from `struct Quantity` in
src/system.rs and (b) that the folded normal forms the reference functions are generated from
(`Uom/Model/Fold.lean`) compute exactly what the conversion kernel computes, for every value — i.e.
that the constant folding the optimiser performs is *legal*.  That the optimiser actually performs it
(and the platform ABI) is shown only by the correspondence run: optimised machine code of each
quantity-level function is compared with that of the reference function.  LLVM's code generation is
not modelled: this is why the claim is partial.
-/
namespace Uom.C04
open Uom

/-- `#[repr(transparent)]`, exactly one field that is not `PhantomData`, and it is `value: V` -/
theorem layout_transparent :
    Gen.Layout.attrs.contains "repr(transparent)" = true ∧
    (Gen.Layout.fields.filter fun p => !p.2.2) = [("value", "V", false)] ∧
    Gen.Layout.fields.length = 3 := by
  decide +kernel

/-- the conversion kernel is `#[inline(always)]` -/
theorem kernel_inlined : (Gen.Layout.inlineAlways.all fun p => p.2) = true ∧ Gen.Layout.inlineAlways.length = 3 := by
  decide +kernel

/-- **construction folds**, unit without offset, branch `coef ≥ f`: `v ⊕ (−0.0)` disappears and one
    multiplication by the constant `coef ⊘ f` remains — for every canonical value -/
theorem fold_new_ge (f : Fmt) (hf : f.WF) (v coef fac : Fl) (hv : Fl.Canonical f v) (hge : Fl.ge coef fac = true) :
    toBase (flS f) coef (Fl.zero f true) fac v = Fl.mul f v (Fl.div f coef fac) := by
  unfold toBase
  simp only [flS, id, hge, if_true]
  rw [Fl.add_negzero hf v hv]

/-- branch `coef < f`: multiply by `coef`, divide by `f` (two constants; one when `f = 1`) -/
theorem fold_new_lt (f : Fmt) (hf : f.WF) (v coef fac : Fl) (hv : Fl.Canonical f v) (hlt : Fl.ge coef fac = false) :
    toBase (flS f) coef (Fl.zero f true) fac v = Fl.div f (Fl.mul f v coef) fac := by
  unfold toBase
  simp only [flS, id, hlt, Bool.false_eq_true, if_false]
  rw [Fl.add_negzero hf v hv]

/-- **construction in the coherent / own base unit compiles to nothing**: it is the identity -/
theorem fold_new_identity (f : Fmt) (hf : f.WF) (v c : Fl) (hv : Fl.Canonical f v) (hfin : c.isFinite = true) (hnz : c.isZero = false) :
    toBase (flS f) c (Fl.zero f true) c v = v := Fl.toBase_id' hf v c hv hfin hnz

/-- read-back in the own base unit likewise -/
theorem fold_get_identity (f : Fmt) (hf : f.WF) (v c : Fl) (hv : Fl.Canonical f v) (hfin : c.isFinite = true) (hnz : c.isZero = false) :
    fromBase (flS f) c (Fl.zero f false) c v = v := Fl.fromBase_id' hf v c hv hfin hnz

/-- same-base arithmetic needs no conversion at all: `change_base` is the identity (C07) -/
theorem fold_same_base (f : Fmt) (hf : f.WF) (l v : Fl) (hv : Fl.Canonical f v) (hfin : l.isFinite = true) (hnz : l.isZero = false) :
    changeBase (flS f) l l v = v := Fl.changeBase_id' hf v l hv hfin hnz

/-- mixed-base arithmetic: the right operand is scaled by one folded constant (the two branches of
    `change_base` are single operations by definition) -/
theorem fold_change (f : Fmt) (l r v : Fl) :
    changeBase (flS f) l r v = if Fl.ge r l then Fl.mul f v (Fl.div f r l) else Fl.div f v (Fl.div f l r) := rfl

/-- **the reference functions are right**: the folded normal form `foldNew` (from which the bare-number
    reference of every `new::<N>` in the asm catalogue is generated) computes exactly `to_base`, for
    every canonical value, every coefficient, offset and base factor -/
theorem reference_new_correct (f : Fmt) (hf : f.WF) (v coef c fac : Fl) (hv : Fl.Canonical f v)
    (hc : c.isZero = true → c = Fl.zero f true) :
    (foldNew f coef c fac).eval f v = toBase (flS f) coef c fac v := Fl.foldNew_correct hf v coef c fac hv hc

theorem reference_get_correct (f : Fmt) (hf : f.WF) (v coef c fac : Fl) (hv : Fl.Canonical f v)
    (hc : c.isZero = true → c = Fl.zero f false) :
    (foldGet f coef c fac).eval f v = fromBase (flS f) coef c fac v := Fl.foldGet_correct hf v coef c fac hv hc

theorem reference_change_correct (f : Fmt) (hf : f.WF) (v l r : Fl) (hv : Fl.Canonical f v) :
    (foldChange f l r).eval f v = changeBase (flS f) l r v := Fl.foldChange_correct hf v l r hv

/-- every f64 / f32 bit pattern is a canonical value, so the three theorems above cover every machine value -/
theorem every_bit_pattern_canonical (bits : Nat) :
    Fl.Canonical b64 (Fl.ofBits b64 bits) ∧ Fl.Canonical b32 (Fl.ofBits b32 bits) :=
  ⟨Fl.ofBits_canonical_b64 bits, Fl.ofBits_canonical_b32 bits⟩

/-- affine units: the offset is added first, then one scaling — never a second offset -/
theorem fold_new_affine (f : Fmt) (coef c fac v : Fl) (hge : Fl.ge coef fac = true) :
    toBase (flS f) coef c fac v = Fl.mul f (Fl.add f v c) (Fl.div f coef fac) := by
  unfold toBase; simp only [flS, id, hge, if_true]

/-! ### tie to the source: the operator bodies regenerated from /repo/src on this run do no extra work

`BExpr.work` counts the storage-type operations an expression performs (binary / assignment operators,
negation, method calls other than the free `conversion()` / `value()` re-wraps of floats) and the
conversions it calls (`change_base`, `to_base`, `from_base`).  Every not-autoconvert operator body is
*one* storage operation and no conversion; every autoconvert body is the same one operation plus one
`change_base` (which `fold_same_base` / `fold_change` above reduce to nothing, or to one multiplication
by a constant); wrapping in `Quantity { … PhantomData … }` and reading `.value` are free. -/
section SourceTie
open Uom.Body Uom.Gen.Body

/-- (storage operations, conversion calls) of an expression -/
def work : BExpr → Nat × Nat
  | .var _ | .lit _ | .fn0 _ | .opaque _ | .baseFactor _ _ => (0, 0)
  | .fn1 (.changeBase _ _ _) a | .fn1 (.toBase _ _ _) a | .fn1 (.fromBase _ _ _) a | .fn1 (.selfNew _) a =>
      ((work a).1, (work a).2 + 1)
  | .fn1 _ a => ((work a).1 + 1, (work a).2)
  | .fn2 _ a b => ((work a).1 + (work b).1 + 1, (work a).2 + (work b).2)
  | .m0 r (.get _) => ((work r).1, (work r).2 + 1)
  | .m0 r _ => ((work r).1 + 1, (work r).2)
  | .m1 r _ a => ((work r).1 + (work a).1 + 1, (work r).2 + (work a).2)
  | .m2 r _ a b => ((work r).1 + (work a).1 + (work b).1 + 1, (work r).2 + (work a).2 + (work b).2)
  | .valueOf r | .ref r | .quantity r => work r
  | .bin _ a b | .assign _ a b => ((work a).1 + (work b).1 + 1, (work a).2 + (work b).2)
  | .neg a => ((work a).1 + 1, (work a).2)
  | .ite c t e => ((work c).1 + (work t).1 + (work e).1, (work c).2 + (work t).2 + (work e).2)
  | .letIn _ v b => ((work v).1 + (work b).1, (work v).2 + (work b).2)
  | .seq a b => ((work a).1 + (work b).1, (work a).2 + (work b).2)

/-- without autoconvert: exactly one storage operation, no conversion -/
theorem src_noauto_bodies_are_one_operation :
    [system_Add_for_Quantity_add_noauto, system_Sub_for_Quantity_sub_noauto, system_Rem_for_Quantity_rem_noauto,
     system_Mul_Quantity_for_Quantity_mul_noauto, system_Div_Quantity_for_Quantity_div_noauto,
     system_AddAssign_for_Quantity_add_assign_noauto, system_SubAssign_for_Quantity_sub_assign_noauto,
     system_RemAssign_for_Quantity_rem_assign_noauto, system_PartialEq_for_Quantity_eq_noauto,
     system_PartialOrd_for_Quantity_partial_cmp_noauto, system_PartialOrd_for_Quantity_lt_noauto,
     system_PartialOrd_for_Quantity_le_noauto, system_PartialOrd_for_Quantity_gt_noauto, system_PartialOrd_for_Quantity_ge_noauto,
     system_inherent_Quantity_hypot_noauto, system_inherent_Quantity_mul_add_noauto,
     si_mod_From_Quantity_for_Quantity_from_noauto,
     -- forms without a twin
     system_Mul_V_for_Quantity_mul, system_Div_V_for_Quantity_div, system_MulAssign_V_for_Quantity_mul_assign,
     system_DivAssign_V_for_Quantity_div_assign, system_Mul_Quantity_for_V_mul, system_Div_Quantity_for_V_div,
     system_Neg_for_Quantity_neg, system_inherent_Quantity_abs, system_inherent_Quantity_signum, system_inherent_Quantity_recip,
     system_inherent_Quantity_sqrt, system_inherent_Quantity_cbrt, system_inherent_Quantity_max, system_inherent_Quantity_min,
     system_Ord_for_Quantity_cmp, system_Ord_for_Quantity_max, system_Ord_for_Quantity_min,
     system_Saturating_for_Quantity_saturating_add, system_Saturating_for_Quantity_saturating_sub,
     system_inherent_Quantity_classify, system_inherent_Quantity_is_nan, system_inherent_Quantity_is_finite,
     system_Zero_for_Quantity_is_zero, system_Hash_for_Quantity_hash].map (fun f => work f.body)
    = [(1, 0), (1, 0), (1, 0), (1, 0), (1, 0), (1, 0), (1, 0), (1, 0), (1, 0), (1, 0), (1, 0), (1, 0), (1, 0), (1, 0),
       (1, 0), (1, 0), (0, 0),
       (1, 0), (1, 0), (1, 0), (1, 0), (1, 0), (1, 0), (1, 0), (1, 0), (1, 0), (1, 0), (1, 0), (1, 0), (1, 0), (1, 0),
       (1, 0), (1, 0), (1, 0), (1, 0), (1, 0), (1, 0), (1, 0), (1, 0), (1, 0), (1, 0)] := by
  decide

/-- with autoconvert: the same one operation plus exactly one `change_base` per converted operand -/
theorem src_auto_bodies_add_one_conversion :
    [system_Add_Quantity_for_Quantity_add_auto, system_Sub_Quantity_for_Quantity_sub_auto, system_Rem_Quantity_for_Quantity_rem_auto,
     system_Mul_Quantity_for_Quantity_mul_auto, system_Div_Quantity_for_Quantity_div_auto,
     system_AddAssign_Quantity_for_Quantity_add_assign_auto, system_SubAssign_Quantity_for_Quantity_sub_assign_auto,
     system_RemAssign_Quantity_for_Quantity_rem_assign_auto, system_PartialEq_Quantity_for_Quantity_eq_auto,
     system_PartialOrd_Quantity_for_Quantity_partial_cmp_auto, system_PartialOrd_Quantity_for_Quantity_lt_auto,
     system_inherent_Quantity_hypot_auto, system_inherent_Quantity_mul_add_auto,
     si_mod_From_Quantity_for_Quantity_from_auto].map (fun f => work f.body)
    = [(1, 1), (1, 1), (1, 1), (1, 1), (1, 1), (1, 1), (1, 1), (1, 1), (1, 1), (1, 1), (1, 1), (1, 1), (1, 2), (0, 1)] := by
  decide

/-- `new` is one `to_base`, `get` one `from_base`; a rounding method is one `get`, one storage function, one `new` -/
theorem src_new_get_rounding_work :
    [quantity_inherent_quantity_new, quantity_inherent_quantity_get, quantity_inherent_quantity_floor,
     quantity_inherent_quantity_trunc].map (fun f => work f.body) = [(0, 1), (0, 1), (1, 2), (1, 2)] := by
  decide

/-- the conversion kernel itself: `to_base` / `from_base` are an addition/subtraction, a division of two
    constants and a multiplication or division (3 operations in either branch, counted over both
    branches: 6, plus the comparison and the two free re-wraps) — no loop, no call -/
theorem src_kernel_work :
    (work system_free_to_base.body).2 = 0 ∧ (work system_free_from_base.body).2 = 0 ∧ (work system_free_change_base.body).2 = 0 := by
  decide

end SourceTie

end Uom.C04
