import Uom.Model.Fold
import Uom.Proofs.FlConvIdentity
import Uom.Proofs.FoldCorrect
import Uom.Gen.Layout
/-!
# C04 — quantities are a zero-cost, transparent wrapper over the storage type (claimed partial)

What Lean can prove is (a) the *layout description* regenerated from `struct Quantity` in
src/system.rs and (b) that the folded normal forms the reference functions are generated from
(`Uom/Model/Fold.lean`) compute exactly what the conversion kernel computes, for every value — i.e.
that the constant folding the optimiser performs is *legal*.  That the optimiser actually performs it
(and the platform ABI) is shown only by the correspondence run: optimised machine code of each
quantity-level function is compared with that of the reference function.  LLVM's code generation is
not modelled: this is why the claim is partial.
-/
namespace Uom.C04
open Uom

/-- `#[repr(transparent)]`, exactly one field that is not `PhantomData`, and it is `value: V` -/
theorem layout_transparent :
    Gen.Layout.attrs.contains "repr(transparent)" = true ∧
    (Gen.Layout.fields.filter fun p => !p.2.2) = [("value", "V", false)] ∧
    Gen.Layout.fields.length = 3 := by
  decide +kernel

/-- the conversion kernel is `#[inline(always)]` -/
theorem kernel_inlined : (Gen.Layout.inlineAlways.all fun p => p.2) = true ∧ Gen.Layout.inlineAlways.length = 3 := by
  decide +kernel

/-- **construction folds**, unit without offset, branch `coef ≥ f`: `v ⊕ (−0.0)` disappears and one
    multiplication by the constant `coef ⊘ f` remains — for every canonical value -/
theorem fold_new_ge (f : Fmt) (hf : f.WF) (v coef fac : Fl) (hv : Fl.Canonical f v) (hge : Fl.ge coef fac = true) :
    toBase (flS f) coef (Fl.zero f true) fac v = Fl.mul f v (Fl.div f coef fac) := by
  unfold toBase
  simp only [flS, id, hge, if_true]
  rw [Fl.add_negzero hf v hv]

/-- branch `coef < f`: multiply by `coef`, divide by `f` (two constants; one when `f = 1`) -/
theorem fold_new_lt (f : Fmt) (hf : f.WF) (v coef fac : Fl) (hv : Fl.Canonical f v) (hlt : Fl.ge coef fac = false) :
    toBase (flS f) coef (Fl.zero f true) fac v = Fl.div f (Fl.mul f v coef) fac := by
  unfold toBase
  simp only [flS, id, hlt, Bool.false_eq_true, if_false]
  rw [Fl.add_negzero hf v hv]

/-- **construction in the coherent / own base unit compiles to nothing**: it is the identity -/
theorem fold_new_identity (f : Fmt) (hf : f.WF) (v c : Fl) (hv : Fl.Canonical f v) (hfin : c.isFinite = true) (hnz : c.isZero = false) :
    toBase (flS f) c (Fl.zero f true) c v = v := Fl.toBase_id' hf v c hv hfin hnz

/-- read-back in the own base unit likewise -/
theorem fold_get_identity (f : Fmt) (hf : f.WF) (v c : Fl) (hv : Fl.Canonical f v) (hfin : c.isFinite = true) (hnz : c.isZero = false) :
    fromBase (flS f) c (Fl.zero f false) c v = v := Fl.fromBase_id' hf v c hv hfin hnz

/-- same-base arithmetic needs no conversion at all: `change_base` is the identity (C07) -/
theorem fold_same_base (f : Fmt) (hf : f.WF) (l v : Fl) (hv : Fl.Canonical f v) (hfin : l.isFinite = true) (hnz : l.isZero = false) :
    changeBase (flS f) l l v = v := Fl.changeBase_id' hf v l hv hfin hnz

/-- mixed-base arithmetic: the right operand is scaled by one folded constant (the two branches of
    `change_base` are single operations by definition) -/
theorem fold_change (f : Fmt) (l r v : Fl) :
    changeBase (flS f) l r v = if Fl.ge r l then Fl.mul f v (Fl.div f r l) else Fl.div f v (Fl.div f l r) := rfl

/-- **the reference functions are right**: the folded normal form `foldNew` (from which the bare-number
    reference of every `new::<N>` in the asm catalogue is generated) computes exactly `to_base`, for
    every canonical value, every coefficient, offset and base factor -/
theorem reference_new_correct (f : Fmt) (hf : f.WF) (v coef c fac : Fl) (hv : Fl.Canonical f v)
    (hc : c.isZero = true → c = Fl.zero f true) :
    (foldNew f coef c fac).eval f v = toBase (flS f) coef c fac v := Fl.foldNew_correct hf v coef c fac hv hc

theorem reference_get_correct (f : Fmt) (hf : f.WF) (v coef c fac : Fl) (hv : Fl.Canonical f v)
    (hc : c.isZero = true → c = Fl.zero f false) :
    (foldGet f coef c fac).eval f v = fromBase (flS f) coef c fac v := Fl.foldGet_correct hf v coef c fac hv hc

theorem reference_change_correct (f : Fmt) (hf : f.WF) (v l r : Fl) (hv : Fl.Canonical f v) :
    (foldChange f l r).eval f v = changeBase (flS f) l r v := Fl.foldChange_correct hf v l r hv

/-- every f64 / f32 bit pattern is a canonical value, so the three theorems above cover every machine value -/
theorem every_bit_pattern_canonical (bits : Nat) :
    Fl.Canonical b64 (Fl.ofBits b64 bits) ∧ Fl.Canonical b32 (Fl.ofBits b32 bits) :=
  ⟨Fl.ofBits_canonical_b64 bits, Fl.ofBits_canonical_b32 bits⟩

/-- affine units: the offset is added first, then one scaling — never a second offset -/
theorem fold_new_affine (f : Fmt) (coef c fac v : Fl) (hge : Fl.ge coef fac = true) :
    toBase (flS f) coef c fac v = Fl.mul f (Fl.add f v c) (Fl.div f coef fac) := by
  unfold toBase; simp only [flS, id, hge, if_true]

end Uom.C04
