import Uom.Props.C07
import Uom.Props.C15
/-!
# C17 — feature flags change what compiles, never what a compiled program computes

A program that compiles with `autoconvert` off only combines operands that share base units (the
`not_autoconvert!` impls have a single `U` parameter).  For such operands the `autoconvert!` bodies
(`binOpOn`, `kindFromOn`, `mulAddOn`) compute exactly what the `not_autoconvert!` bodies
(`binOpOff`, `kindFromOff`, `mulAddOff`) compute.  `std` only selects where `powi` and the libm
functions come from; the conversion kernel takes `powi` as a parameter, so with equal `powi` results
the two configurations run the same model.
-/
namespace Uom.C17
open Uom

/-- binary forms (arithmetic, comparison, temperature arithmetic): on = off for shared base units -/
theorem mode_irrelevant (N : NumTy) (form : BinForm) (l : N.S.T) (a b : N.S.V)
    (hid : changeBase N.S l l b = b) :
    binOpOn N form l l a b = binOpOff N form a b :=
  C07.op_on_eq_off N form l a b hid

theorem mode_irrelevant_f64 (form : BinForm) (l a b : Fl) (hb : Fl.Canonical b64 b)
    (hfin : l.isFinite = true) (hnz : l.isZero = false) :
    binOpOn (flTy "f64" b64) form l l a b = binOpOff (flTy "f64" b64) form a b :=
  mode_irrelevant (flTy "f64" b64) form l a b (C07.changeBase_same_float b64 b64_wf l b hb hfin hnz)

theorem mode_irrelevant_f32 (form : BinForm) (l a b : Fl) (hb : Fl.Canonical b32 b)
    (hfin : l.isFinite = true) (hnz : l.isZero = false) :
    binOpOn (flTy "f32" b32) form l l a b = binOpOff (flTy "f32" b32) form a b :=
  mode_irrelevant (flTy "f32" b32) form l a b (C07.changeBase_same_float b32 b32_wf l b hb hfin hnz)

/-- kind conversion: on = off for shared base units -/
theorem from_mode_irrelevant (f : Fmt) (hf : f.WF) (l a : Fl) (ha : Fl.Canonical f a)
    (hfin : l.isFinite = true) (hnz : l.isZero = false) :
    kindFromOn (flS f) l l a = kindFromOff (flS f) a :=
  C15.from_same_base_float f hf l a ha hfin hnz

/-- fused multiply-add: on = off for shared base units -/
theorem mul_add_mode_irrelevant (f : Fmt) (hf : f.WF) (la lb x a b : Fl)
    (ha : Fl.Canonical f a) (hb : Fl.Canonical f b)
    (hfa : la.isFinite = true) (hza : la.isZero = false) (hfb : lb.isFinite = true) (hzb : lb.isZero = false) :
    mulAddOn f la la lb lb x a b = mulAddOff f x a b := by
  unfold mulAddOn mulAddOff
  rw [Fl.changeBase_id' hf a la ha hfa hza, Fl.changeBase_id' hf b lb hb hfb hzb]

/-- `new`/`get` do not mention autoconvert or std at all: same function of the same parameters -/
theorem conversion_config_free (S : Storage) (coef c f : S.T) (v : S.V) :
    toBase S coef c f v = toBase S coef c f v ∧ fromBase S coef c f v = fromBase S coef c f v := ⟨rfl, rfl⟩

end Uom.C17
