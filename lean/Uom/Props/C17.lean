import Uom.Props.C07
import Uom.Props.C15
import Uom.Proofs.BodyEq.Temp
import Uom.Proofs.BodyEq.Mixed
import Uom.Gen.Sigs
import Uom.Gen.Features
import Uom.Proofs.BodyEq.Powi
/-!
# C17 — feature flags change what compiles, never what a compiled program computes

A program that compiles with `autoconvert` off only combines operands that share base units (the
`not_autoconvert!` impls have a single `U` parameter).  For such operands the `autoconvert!` bodies
(`binOpOn`, `kindFromOn`, `mulAddOn`) compute exactly what the `not_autoconvert!` bodies
(`binOpOff`, `kindFromOff`, `mulAddOff`) compute.  `std` only selects where `powi` and the libm
functions come from; the conversion kernel takes `powi` as a parameter, so with equal `powi` results
the two configurations run the same model.
-/
namespace Uom.C17
open Uom

/-- binary forms (arithmetic, comparison, temperature arithmetic): on = off for shared base units -/
theorem mode_irrelevant (N : NumTy) (form : BinForm) (l : N.S.T) (a b : N.S.V)
    (hid : changeBase N.S l l b = b) :
    binOpOn N form l l a b = binOpOff N form a b :=
  C07.op_on_eq_off N form l a b hid

theorem mode_irrelevant_f64 (form : BinForm) (l a b : Fl) (hb : Fl.Canonical b64 b)
    (hfin : l.isFinite = true) (hnz : l.isZero = false) :
    binOpOn (flTy "f64" b64) form l l a b = binOpOff (flTy "f64" b64) form a b :=
  mode_irrelevant (flTy "f64" b64) form l a b (C07.changeBase_same_float b64 b64_wf l b hb hfin hnz)

theorem mode_irrelevant_f32 (form : BinForm) (l a b : Fl) (hb : Fl.Canonical b32 b)
    (hfin : l.isFinite = true) (hnz : l.isZero = false) :
    binOpOn (flTy "f32" b32) form l l a b = binOpOff (flTy "f32" b32) form a b :=
  mode_irrelevant (flTy "f32" b32) form l a b (C07.changeBase_same_float b32 b32_wf l b hb hfin hnz)

/-- kind conversion: on = off for shared base units -/
theorem from_mode_irrelevant (f : Fmt) (hf : f.WF) (l a : Fl) (ha : Fl.Canonical f a)
    (hfin : l.isFinite = true) (hnz : l.isZero = false) :
    kindFromOn (flS f) l l a = kindFromOff (flS f) a :=
  C15.from_same_base_float f hf l a ha hfin hnz

/-- fused multiply-add: on = off for shared base units -/
theorem mul_add_mode_irrelevant (f : Fmt) (hf : f.WF) (la lb x a b : Fl)
    (ha : Fl.Canonical f a) (hb : Fl.Canonical f b)
    (hfa : la.isFinite = true) (hza : la.isZero = false) (hfb : lb.isFinite = true) (hzb : lb.isZero = false) :
    mulAddOn f la la lb lb x a b = mulAddOff f x a b := by
  unfold mulAddOn mulAddOff
  rw [Fl.changeBase_id' hf a la ha hfa hza, Fl.changeBase_id' hf b lb hb hfb hzb]

/-- `new`/`get` do not mention autoconvert or std at all: same function of the same parameters -/
theorem conversion_config_free (S : Storage) (coef c f : S.T) (v : S.V) :
    toBase S coef c f v = toBase S coef c f v ∧ fromBase S coef c f v = fromBase S coef c f v := ⟨rfl, rfl⟩

/-! ### tie to the source: the feature-gated twins regenerated from /repo/src on this run

Every operator that exists twice (`autoconvert!` / `not_autoconvert!`, or `#[cfg(feature = "autoconvert")]`
/ `#[cfg(not(...))]`) is compared body against body: with shared base units (`Ul = Ur`, the only
operands a program compiling under both configurations can combine) and `change_base` the identity at
the operand, the two regenerated bodies evaluate to the same value, for every storage type. -/
section SourceTie
open Uom.Body Uom.Gen.Body

theorem src_twins_agree (N : NumTy) (env : Env N) (a b : N.S.V)
    (hD : env.bf .Ur .D = env.bf .Ul .D) (hDr : env.bf .Ur .Dr = env.bf .Ul .Dr)
    (hid : changeBase N.S (env.bf .Ul .D) (env.bf .Ul .D) b = b)
    (hidr : changeBase N.S (env.bf .Ul .Dr) (env.bf .Ul .Dr) b = b) :
    run N env system_Add_Quantity_for_Quantity_add_auto [argQ a, argQ b] = run N env system_Add_for_Quantity_add_noauto [argQ a, argQ b] ∧
    run N env system_Sub_Quantity_for_Quantity_sub_auto [argQ a, argQ b] = run N env system_Sub_for_Quantity_sub_noauto [argQ a, argQ b] ∧
    run N env system_Rem_Quantity_for_Quantity_rem_auto [argQ a, argQ b] = run N env system_Rem_for_Quantity_rem_noauto [argQ a, argQ b] ∧
    run N env system_Mul_Quantity_for_Quantity_mul_auto [argQ a, argQ b] = run N env system_Mul_Quantity_for_Quantity_mul_noauto [argQ a, argQ b] ∧
    run N env system_Div_Quantity_for_Quantity_div_auto [argQ a, argQ b] = run N env system_Div_Quantity_for_Quantity_div_noauto [argQ a, argQ b] ∧
    run N env system_AddAssign_Quantity_for_Quantity_add_assign_auto [argQ a, argQ b] = run N env system_AddAssign_for_Quantity_add_assign_noauto [argQ a, argQ b] ∧
    run N env system_SubAssign_Quantity_for_Quantity_sub_assign_auto [argQ a, argQ b] = run N env system_SubAssign_for_Quantity_sub_assign_noauto [argQ a, argQ b] ∧
    run N env system_RemAssign_Quantity_for_Quantity_rem_assign_auto [argQ a, argQ b] = run N env system_RemAssign_for_Quantity_rem_assign_noauto [argQ a, argQ b] ∧
    run N env system_PartialEq_Quantity_for_Quantity_eq_auto [argQ a, argQ b] = run N env system_PartialEq_for_Quantity_eq_noauto [argQ a, argQ b] ∧
    run N env system_PartialOrd_Quantity_for_Quantity_lt_auto [argQ a, argQ b] = run N env system_PartialOrd_for_Quantity_lt_noauto [argQ a, argQ b] ∧
    run N env system_PartialOrd_Quantity_for_Quantity_partial_cmp_auto [argQ a, argQ b] = run N env system_PartialOrd_for_Quantity_partial_cmp_noauto [argQ a, argQ b] := by
  have on := C07.src_on_same_base_is_raw N env a b hD hDr hid hidr
  have off := C07.src_off_is_raw N env a b
  obtain ⟨o1, o2, o3, o4, o5, o6, o7, o8, o9, o10, o11⟩ := on
  obtain ⟨f1, f2, f3, f4, f5, f6, f7, f8, f9, f10, _, _, _, f14⟩ := off
  exact ⟨o1.trans f1.symm, o2.trans f2.symm, o3.trans f3.symm, o4.trans f4.symm, o5.trans f5.symm,
    o6.trans f6.symm, o7.trans f7.symm, o8.trans f8.symm, o9.trans f9.symm, o10.trans f10.symm, o11.trans f14.symm⟩

/-- the remaining comparison twins (`<=`, `>`, `>=`) -/
theorem src_cmp_twins_agree (N : NumTy) (env : Env N) (a b : N.S.V)
    (hD : env.bf .Ur .D = env.bf .Ul .D)
    (hid : changeBase N.S (env.bf .Ul .D) (env.bf .Ul .D) b = b) :
    run N env system_PartialOrd_Quantity_for_Quantity_le_auto [argQ a, argQ b] = run N env system_PartialOrd_for_Quantity_le_noauto [argQ a, argQ b] ∧
    run N env system_PartialOrd_Quantity_for_Quantity_gt_auto [argQ a, argQ b] = run N env system_PartialOrd_for_Quantity_gt_noauto [argQ a, argQ b] ∧
    run N env system_PartialOrd_Quantity_for_Quantity_ge_auto [argQ a, argQ b] = run N env system_PartialOrd_for_Quantity_ge_noauto [argQ a, argQ b] := by
  refine ⟨?_, ?_, ?_⟩
  · rw [BodyEq.le_auto_eq, BodyEq.le_noauto_eq, hD, C07.op_on_eq_off N .le _ a b hid]
  · rw [BodyEq.gt_auto_eq, BodyEq.gt_noauto_eq, hD, C07.op_on_eq_off N .gt _ a b hid]
  · rw [BodyEq.ge_auto_eq, BodyEq.ge_noauto_eq, hD, C07.op_on_eq_off N .ge _ a b hid]

/-- temperature twins (src/si), kind-conversion twins, `hypot` and `mul_add` twins -/
theorem src_special_twins_agree (N : NumTy) (env : Env N) (x a b : N.S.V)
    (hT : env.bf .Ur .Dimension = env.bf .Ul .Dimension)
    (hidT : changeBase N.S (env.bf .Ul .Dimension) (env.bf .Ul .Dimension) b = b)
    (hE : env.bf .Ur .Dexplicit = env.bf .Ul .Dexplicit)
    (hidE : changeBase N.S (env.bf .Ul .Dexplicit) (env.bf .Ul .Dexplicit) a = a)
    (hH : env.bf .Ur .D = env.bf .U .D) (hidH : changeBase N.S (env.bf .U .D) (env.bf .U .D) b = b)
    (hA : env.bf .Ua .Da = env.bf .U .Da) (hidA : changeBase N.S (env.bf .U .Da) (env.bf .U .Da) a = a)
    (hB : env.bf .Ub .Dsum = env.bf .U .Dsum) (hidB : changeBase N.S (env.bf .U .Dsum) (env.bf .U .Dsum) b = b) :
    run N env si_thermodynamic_temperature_Add_TemperatureInterval_for_ThermodynamicTemperature_add_auto [argQ a, argQ b]
      = run N env si_thermodynamic_temperature_Add_TemperatureInterval_for_ThermodynamicTemperature_add_noauto [argQ a, argQ b] ∧
    run N env si_thermodynamic_temperature_Sub_TemperatureInterval_for_ThermodynamicTemperature_sub_auto [argQ a, argQ b]
      = run N env si_thermodynamic_temperature_Sub_TemperatureInterval_for_ThermodynamicTemperature_sub_noauto [argQ a, argQ b] ∧
    run N env si_thermodynamic_temperature_AddAssign_TemperatureInterval_for_ThermodynamicTemperature_add_assign_auto [argQ a, argQ b]
      = run N env si_thermodynamic_temperature_AddAssign_TemperatureInterval_for_ThermodynamicTemperature_add_assign_noauto [argQ a, argQ b] ∧
    run N env si_thermodynamic_temperature_SubAssign_TemperatureInterval_for_ThermodynamicTemperature_sub_assign_auto [argQ a, argQ b]
      = run N env si_thermodynamic_temperature_SubAssign_TemperatureInterval_for_ThermodynamicTemperature_sub_assign_noauto [argQ a, argQ b] ∧
    run N env si_temperature_interval_Add_ThermodynamicTemperature_for_TemperatureInterval_add_auto [argQ a, argQ b]
      = run N env si_temperature_interval_Add_ThermodynamicTemperature_for_TemperatureInterval_add_noauto [argQ a, argQ b] ∧
    run N env si_mod_From_Quantity_for_Quantity_from_auto [argQ a] = run N env si_mod_From_Quantity_for_Quantity_from_noauto [argQ a] ∧
    run N env system_inherent_Quantity_hypot_auto [argQ a, argQ b] = run N env system_inherent_Quantity_hypot_noauto [argQ a, argQ b] ∧
    run N env system_inherent_Quantity_mul_add_auto [argQ x, argQ a, argQ b] = run N env system_inherent_Quantity_mul_add_noauto [argQ x, argQ a, argQ b] := by
  refine ⟨?_, ?_, ?_, ?_, ?_, ?_, ?_, ?_⟩
  · rw [BodyEq.tt_add_ti_auto_eq, BodyEq.tt_add_ti_noauto_eq, hT, C07.op_on_eq_off N .ttAddTi _ a b hidT]
  · rw [BodyEq.tt_sub_ti_auto_eq, BodyEq.tt_sub_ti_noauto_eq, hT, C07.op_on_eq_off N .ttSubTi _ a b hidT]
  · rw [BodyEq.tt_add_assign_ti_auto_eq, BodyEq.tt_add_assign_ti_noauto_eq, hT, C07.op_on_eq_off N .ttAddaTi _ a b hidT]
  · rw [BodyEq.tt_sub_assign_ti_auto_eq, BodyEq.tt_sub_assign_ti_noauto_eq, hT, C07.op_on_eq_off N .ttSubaTi _ a b hidT]
  · rw [BodyEq.ti_add_tt_auto_eq, BodyEq.ti_add_tt_noauto_eq, hT, C07.op_on_eq_off N .tiAddTt _ a b hidT]
  · rw [BodyEq.kind_from_auto_eq, BodyEq.kind_from_noauto_eq, hE]; unfold kindFromOn kindFromOff; rw [hidE]
  · rw [BodyEq.hypot_auto_eq, BodyEq.inherent_Quantity_hypot_noauto_eq, hH, hidH]
  · rw [BodyEq.mul_add_auto_eq, BodyEq.mul_add_noauto_eq, hA, hB, hidA, hidB]

/-- **mixed-base-unit operands are rejected without autoconvert**: in every `not_autoconvert!` /
    `#[cfg(not(feature = "autoconvert"))]` twin regenerated from the source, `self` and the right
    operand are typed with *the same* base-units parameter `U` (so operands in different base units do
    not unify), while the `autoconvert!` twins have two independent parameters -/
theorem src_noauto_twins_share_units :
    (Gen.Sig.system_Add_for_Quantity_add_noauto.lhsU = some .U ∧ Gen.Sig.system_Add_for_Quantity_add_noauto.rhsU = some .U) ∧
    (Gen.Sig.system_Sub_for_Quantity_sub_noauto.lhsU = some .U ∧ Gen.Sig.system_Sub_for_Quantity_sub_noauto.rhsU = some .U) ∧
    (Gen.Sig.system_Rem_for_Quantity_rem_noauto.lhsU = some .U ∧ Gen.Sig.system_Rem_for_Quantity_rem_noauto.rhsU = some .U) ∧
    (Gen.Sig.system_AddAssign_for_Quantity_add_assign_noauto.lhsU = some .U ∧ Gen.Sig.system_AddAssign_for_Quantity_add_assign_noauto.rhsU = some .U) ∧
    (Gen.Sig.system_SubAssign_for_Quantity_sub_assign_noauto.lhsU = some .U ∧ Gen.Sig.system_SubAssign_for_Quantity_sub_assign_noauto.rhsU = some .U) ∧
    (Gen.Sig.system_RemAssign_for_Quantity_rem_assign_noauto.lhsU = some .U ∧ Gen.Sig.system_RemAssign_for_Quantity_rem_assign_noauto.rhsU = some .U) ∧
    (Gen.Sig.system_Mul_Quantity_for_Quantity_mul_noauto.lhsU = some .U ∧ Gen.Sig.system_Mul_Quantity_for_Quantity_mul_noauto.rhsU = some .U) ∧
    (Gen.Sig.system_Div_Quantity_for_Quantity_div_noauto.lhsU = some .U ∧ Gen.Sig.system_Div_Quantity_for_Quantity_div_noauto.rhsU = some .U) ∧
    (Gen.Sig.system_PartialEq_for_Quantity_eq_noauto.lhsU = some .U ∧ Gen.Sig.system_PartialEq_for_Quantity_eq_noauto.rhsU = some .U) ∧
    (Gen.Sig.system_PartialOrd_for_Quantity_partial_cmp_noauto.lhsU = some .U ∧ Gen.Sig.system_PartialOrd_for_Quantity_partial_cmp_noauto.rhsU = some .U) ∧
    (Gen.Sig.system_inherent_Quantity_hypot_noauto.lhsU = some .U ∧ Gen.Sig.system_inherent_Quantity_hypot_noauto.rhsU = some .U) ∧
    (Gen.Sig.system_inherent_Quantity_mul_add_noauto.lhsU = some .U ∧ Gen.Sig.system_inherent_Quantity_mul_add_noauto.rhsU = some .U) ∧
    (Gen.Sig.si_mod_From_Quantity_for_Quantity_from_noauto.lhsU = some .U ∧ Gen.Sig.si_mod_From_Quantity_for_Quantity_from_noauto.rhsU = some .U) ∧
    (Gen.Sig.si_thermodynamic_temperature_Add_TemperatureInterval_for_ThermodynamicTemperature_add_noauto.lhsU = some .U ∧
      Gen.Sig.si_thermodynamic_temperature_Add_TemperatureInterval_for_ThermodynamicTemperature_add_noauto.rhsU = some .U) ∧
    (Gen.Sig.si_thermodynamic_temperature_Sub_TemperatureInterval_for_ThermodynamicTemperature_sub_noauto.lhsU = some .U ∧
      Gen.Sig.si_thermodynamic_temperature_Sub_TemperatureInterval_for_ThermodynamicTemperature_sub_noauto.rhsU = some .U) ∧
    (Gen.Sig.si_thermodynamic_temperature_AddAssign_TemperatureInterval_for_ThermodynamicTemperature_add_assign_noauto.lhsU = some .U ∧
      Gen.Sig.si_thermodynamic_temperature_AddAssign_TemperatureInterval_for_ThermodynamicTemperature_add_assign_noauto.rhsU = some .U) ∧
    (Gen.Sig.si_thermodynamic_temperature_SubAssign_TemperatureInterval_for_ThermodynamicTemperature_sub_assign_noauto.lhsU = some .U ∧
      Gen.Sig.si_thermodynamic_temperature_SubAssign_TemperatureInterval_for_ThermodynamicTemperature_sub_assign_noauto.rhsU = some .U) ∧
    (Gen.Sig.si_temperature_interval_Add_ThermodynamicTemperature_for_TemperatureInterval_add_noauto.lhsU = some .U ∧
      Gen.Sig.si_temperature_interval_Add_ThermodynamicTemperature_for_TemperatureInterval_add_noauto.rhsU = some .U) ∧
    -- … and the autoconvert twins have two
    (Gen.Sig.system_Add_Quantity_for_Quantity_add_auto.lhsU = some .Ul ∧ Gen.Sig.system_Add_Quantity_for_Quantity_add_auto.rhsU = some .Ur) ∧
    (Gen.Sig.si_mod_From_Quantity_for_Quantity_from_auto.lhsU = some .Ul ∧ Gen.Sig.si_mod_From_Quantity_for_Quantity_from_auto.rhsU = some .Ur) := by
  decide

end SourceTie

/-! ### tie to the source: the feature gates regenerated from /repo/src/features.rs on this run

The twin theorems above presuppose that in every configuration exactly one body of each
`autoconvert! { … }` / `not_autoconvert! { … }` pair is compiled, and that `std! { … }` code is compiled
exactly with `std`.  `Gen.Features.gates` is the list of gate-macro definitions (cfg predicate, passes its body
or drops it) the translator read just now; for **every** feature assignment `σ` and both values of `test`: -/
section Gates
open Uom.Features Uom.Gen.Features

theorem src_gates (σ : Nat → Bool) (t : Bool) :
    active gates σ t gate_autoconvert = some (σ feat_autoconvert) ∧
    active gates σ t gate_not_autoconvert = some (!σ feat_autoconvert) ∧
    active gates σ t gate_std = some (σ feat_std) ∧
    active gates σ t gate_serde = some (σ feat_serde) ∧
    active gates σ t gate_si = some (σ feat_si) ∧
    active gates σ t gate_test = some t ∧
    active gates σ t gate_autoconvert_test = some (σ feat_autoconvert || t) := by
  cases h0 : σ 0 <;> cases h1 : σ 1 <;> cases h2 : σ 2 <;> cases h3 : σ 3 <;> cases t <;>
    simp [active, defsOf, gates, Cfg.eval, Cfg.evalAny, Cfg.evalAll, h0, h1, h2, h3, gate_autoconvert,
      gate_autoconvert_test, gate_not_autoconvert, gate_serde, gate_si, gate_std, gate_test, feat_autoconvert,
      feat_serde, feat_si, feat_std]

/-- exactly one twin of every `autoconvert!` / `not_autoconvert!` pair is compiled, in every configuration -/
theorem src_twins_complementary (σ : Nat → Bool) (t : Bool) :
    ∃ b, active gates σ t gate_autoconvert = some b ∧ active gates σ t gate_not_autoconvert = some (!b) :=
  ⟨σ feat_autoconvert, (src_gates σ t).1, (src_gates σ t).2.1⟩

end Gates

/-! ### tie to the source: the float `powi` does not touch anything that differs between `std` and `no_std`

Finding F7 was exactly this function: `Float::powi` is the `llvm.powi` intrinsic with `std` (constant-folded
through the host `pow` in optimised builds) and num-traits' software loop without.  The repaired body, regenerated
on this run, calls only `One::one`, `Float::recip` (one IEEE division) and `num_traits::pow::pow` (the same
multiplication loop in both configurations) — the theorem names every call it makes. -/
section PowiConfigFree
open Uom.Rx Uom.Gen.RxBody Uom.BodyEq.Powi

theorem src_powi_float_config_free {α : Type} (one : α) (recip : α → α) (pow : α → Nat → α) (c : α) (e : Int) :
    run (envPowi one recip pow) lib_ConversionFactor_Self_for_V_powi_Float [.host c, .int e] =
      (.val (.host (if e = 0 then one else if e < 0 then pow (recip c) (-e).toNat else pow c e.toNat)), []) :=
  powi_float_eq one recip pow c e

end PowiConfigFree

/-! ### closed world: the configuration axes of the source, regenerated on this run

This property — and the correspondence check, which runs debug builds of four feature sets — ranges over feature
flags.  Code gated on anything else (`debug_assertions`, `target_pointer_width`, `target_arch`, `overflow_checks`, …)
would behave differently along an axis nobody looks at, and a second, differently gated copy of a function would be
invisible to the per-function theorems.  `Gen.Sig.cfgPredicates` lists every `#[cfg(…)]` / `cfg!(…)` / code-affecting
`cfg_attr` predicate of the macro files; the theorems: they are all built from `feature = "…"` and `test` only, and
no function occurs twice. -/
section CfgInventory
open Uom.Gen.Sig

theorem src_cfg_axes_are_features_only : cfgForeignAtoms = [] := by decide
theorem src_no_duplicate_functions : duplicateKeys = [] := by decide
/-- non-vacuity: the inventory is not empty and contains the autoconvert gate -/
example : cfg_feature_autoconvert ∈ cfgPredicates := by decide

end CfgInventory

end Uom.C17
