import Uom.Proofs.OpsExact
import Uom.Proofs.FlConvIdentity
import Uom.Gen.Table
import Uom.Proofs.BodyEq.Kind
/-!
# C15 — kind conversions keep magnitude and dimension; only to/from the default kind

`Gen.implFrom` is the list of `impl_from!(A, B)` invocations regenerated from src/si/mod.rs
(kind indices into `Gen.kinds`; index 0 is the default kind `Kind`).  The macro body converts
`Quantity<dyn Dimension<L = L, …, Kind = dyn A>, Ur, V>` into `Quantity<dyn Dimension<L = L, …, Kind = dyn B>, Ul, V>`
with the *same* seven exponent parameters, by `change_base` (autoconvert) or by moving the value.
-/
namespace Uom.C15
open Uom

/-- a quantity type: exponent vector and kind index -/
structure QTy where
  dim : List Int
  kind : Nat
deriving DecidableEq, Repr

/-- the type-level action of `From`: exponents untouched, kind replaced -/
def fromTy (q : QTy) (toKind : Nat) : QTy := { q with kind := toKind }

theorem from_dim (q : QTy) (k : Nat) : (fromTy q k).dim = q.dim := rfl

/-- which conversions exist: `accepts a b` iff `impl_from!(a, b)` was instantiated -/
def accepts (a b : Nat) : Bool := Gen.implFrom.contains (a, b)

/-- the kinds that have marker-complete arithmetic and a `From` pair with the default kind: every
    generated kind except the default kind itself and the temperature kind (which lacks `Add`) -/
def special (k : Nat) : Bool :=
  k != 0 && k < Gen.kinds.length &&
    (match Gen.kinds[k]? with | some kd => kd.markers.contains 0 | none => false)

/-- **only to/from the default kind**: a conversion between kinds `a`, `b` exists iff exactly one of
    them is the default kind and the other is a special (non-temperature) kind.  In particular
    special → other special, temperature ↔ default, and kind → same kind do not exist. -/
theorem from_exists_iff :
    ∀ a < Gen.kinds.length, ∀ b < Gen.kinds.length,
      accepts a b = ((a == 0 && special b) || (special a && b == 0)) := by decide +kernel

/-- nothing outside the generated kind list is convertible -/
theorem from_only_known : ∀ p ∈ Gen.implFrom, p.1 < Gen.kinds.length ∧ p.2 < Gen.kinds.length := by decide +kernel

/-- magnitude, exact storage: the physical magnitude is preserved exactly, whatever the two base-unit sets -/
theorem from_phys (l r a : Rat) (hl : l ≠ 0) : kindFromOn ratS l r a * l = a * r :=
  Uom.changeBase_phys l r a hl

/-- magnitude, floats, identical base units: the stored value is bit-identical -/
theorem from_same_base_float (f : Fmt) (hf : f.WF) (l a : Fl) (ha : Fl.Canonical f a)
    (hfin : l.isFinite = true) (hnz : l.isZero = false) :
    kindFromOn (flS f) l l a = a :=
  Fl.changeBase_id' hf a l ha hfin hnz

/-- without autoconvert the conversion moves the value (and both sides must share base units) -/
theorem from_off (S : Storage) (a : S.V) : kindFromOff S a = a := rfl

/-- on/off agree for identical base units (exact storage) -/
theorem from_on_off_rat (l a : Rat) (hl : l ≠ 0) : kindFromOn ratS l l a = kindFromOff ratS a :=
  Uom.changeBase_same_rat l a hl

/-- `From<V> for Ratio` / `From<Ratio> for V` are the identity on the value (src/si/ratio.rs) -/
def ratioOfNumber {V : Type} (v : V) : V := v
theorem ratio_number {V : Type} (v : V) : ratioOfNumber (ratioOfNumber v) = v := rfl

/-- non-vacuity: the default kind converts to kind 1 (angle) and back, angle does not convert to kind 2 -/
example : accepts 0 1 = true ∧ accepts 1 0 = true ∧ accepts 1 2 = false ∧ accepts 1 1 = false := by decide +kernel

/-! ### tie to the source: the function bodies regenerated from /repo/src on this run

`Gen.Body.*` below is what the translator read from the Rust source just now; `Body.run` evaluates it
over any storage type.  These theorems state the property's code path *for the regenerated bodies*:
they fail to check as soon as the source computes something else. -/
section SourceTie
open Uom.Body Uom.Gen.Body

/-- `From` between kinds: `change_base` over the (unchanged) explicit dimension when autoconvert is on,
    the bare stored value when it is off; `Ratio` ↔ bare value is the identity on the stored value -/
theorem src_kind_from (N : NumTy) (env : Env N) (a : N.S.V) :
    run N env si_mod_From_Quantity_for_Quantity_from_auto [argQ a]
      = argQ (kindFromOn N.S (env.bf .Ul .Dexplicit) (env.bf .Ur .Dexplicit) a) ∧
    run N env si_mod_From_Quantity_for_Quantity_from_noauto [argQ a] = argQ (kindFromOff N.S a) ∧
    run N env si_ratio_From_V_for_Ratio_from [argV a] = argQ a ∧
    run N env si_ratio_From_Ratio_for_V_from [argQ a] = argV a :=
  ⟨rfl, rfl, rfl, rfl⟩

end SourceTie

end Uom.C15
