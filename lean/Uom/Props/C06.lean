import Uom.Proofs.OpsExact
import Uom.Proofs.KernelFloat
import Uom.Proofs.BodyEq.Conv
import Uom.Proofs.BodyEq.Arith
import Uom.Proofs.BodyEq.Mixed
import Uom.Proofs.BodyEq.Cmp
import Uom.Proofs.FloatOps
import Uom.Proofs.OpsOracleSound
import Uom.Proofs.MoreOracleSound
/-!
# C06 — results do not depend on the base units operands happen to be stored in

`phys F v = v * F`: a stored value `v` of a quantity whose base-unit set has base factor `F` (for the
quantity's dimension) denotes the physical magnitude `v·F` in coherent units.  Each theorem says: the
quantity-level result, read with the *left* operand's base factor, is the raw operation applied to the
two physical magnitudes — exactly for exact storage, for every number of base quantities, every
exponent vector and every (non-zero) base coefficient.
-/
namespace Uom.C06
open Uom

/-- re-expressing the right operand: `change_base` preserves the physical magnitude -/
theorem changeBase_phys (l r v : Rat) (hl : l ≠ 0) : changeBase ratS l r v * l = v * r :=
  Uom.changeBase_phys l r v hl

/-- `+`, `+=`, `TT + TI`, `TI + TT` (the bodies are the same expression) -/
theorem add_phys (l r a b : Rat) (hl : l ≠ 0) :
    (a + changeBase ratS l r b) * l = a * l + b * r := by
  rw [add_mul, Uom.changeBase_phys l r b hl]

/-- `-`, `-=`, `TT - TI` -/
theorem sub_phys (l r a b : Rat) (hl : l ≠ 0) :
    (a - changeBase ratS l r b) * l = a * l - b * r := by
  rw [sub_mul, Uom.changeBase_phys l r b hl]

/-- `*`: the result has dimension `Dl + Dr`; its base factor in the left base units is `ll * lr`
    (`baseFac_add`), where `ll`, `lr` are the left base units' factors for `Dl`, `Dr` -/
theorem mul_phys (ll lr rr a b : Rat) (hl : lr ≠ 0) :
    (a * changeBase ratS lr rr b) * (ll * lr) = (a * ll) * (b * rr) := by
  rw [changeBase_rat]; field_simp

/-- `/`: result dimension `Dl − Dr`, base factor `ll / lr` -/
theorem div_phys (ll lr rr a b : Rat) (hl : lr ≠ 0) (hr : rr ≠ 0) :
    (a / changeBase ratS lr rr b) * (ll / lr) = (a * ll) / (b * rr) := by
  rw [changeBase_rat]
  by_cases hb : b = 0
  · subst hb; simp
  · field_simp

/-- the base factor of a product quantity is the product of the base factors (any number of base
    quantities, any exponents): this is what makes `mul_phys` talk about the right factor -/
theorem baseFactor_add (us : List Rat) (ds es : List Int) (hlen : ds.length = es.length)
    (hus : ∀ u ∈ us, u ≠ 0) :
    baseFac us (List.zipWith (· + ·) ds es) = baseFac us ds * baseFac us es :=
  Uom.baseFac_add us ds es hlen hus

/-- comparisons: with positive base coefficients every comparison form decides the order of the
    physical magnitudes -/
theorem lt_phys (l r a b : Rat) (hl : 0 < l) :
    (a < changeBase ratS l r b) ↔ (a * l < b * r) := by
  rw [← Uom.changeBase_phys l r b (ne_of_gt hl)]
  exact (mul_lt_mul_iff_of_pos_right hl).symm

theorem eq_phys (l r a b : Rat) (hl : l ≠ 0) :
    (a = changeBase ratS l r b) ↔ (a * l = b * r) := by
  rw [← Uom.changeBase_phys l r b hl]
  constructor
  · intro h; rw [h]
  · intro h; exact mul_right_cancel₀ hl h

/-- fused multiply-add `x.mul_add(a, b)`: `x` in base units with factors `lx` (its own dimension),
    `la` (dimension of `a`), and `lx * la` for the result / `b` -/
theorem mul_add_phys (lx la ra rb x a b : Rat) (hla : la ≠ 0) (hlx : lx ≠ 0) :
    (x * changeBase ratS la ra a + changeBase ratS (lx * la) rb b) * (lx * la)
      = (x * lx) * (a * ra) + b * rb := by
  rw [changeBase_rat, changeBase_rat]; field_simp

/-- kind conversion (`From`): magnitude preserved -/
theorem from_phys (l r a : Rat) (hl : l ≠ 0) : kindFromOn ratS l r a * l = a * r :=
  Uom.changeBase_phys l r a hl

/-- floats: the converted right operand is `b·R/L` up to two roundings (no standard-model assumption:
    a theorem about the soft-float), so `+ − * /` are within a few ulps of the exact physical result -/
theorem changeBase_float (f : Fmt) (hp : 1 ≤ f.p) (l r v : Fl) (H : Proofs.ChangeBaseOk f l r v) :
    Proofs.Approx (Proofs.uro f) 2 (Fl.toRat (changeBase (flS f) l r v)) (v.toRat * r.toRat / l.toRat) :=
  Proofs.changeBase_flS_approx hp H

/-- non-vacuity: 2 m (SI) + 3 m stored in kilometre base units (0.003, base factor 1000) = 5 m -/
example : (2 + changeBase ratS 1 1000 (3 / 1000) : Rat) * 1 = 2 * 1 + (3 / 1000) * 1000 := add_phys 1 1000 2 (3/1000) one_ne_zero

/-! ### floats: proved bounds for the mixed-base operators (soft-float theorems, no rounding axiom)

`B = b·R/L` is the right operand's physical magnitude expressed in the left operand's base units.
`ChangeBaseOk` says no intermediate of `change_base` overflows or falls into the subnormal range. -/

/-- `a * change_base(b)` is within `4u` of the exact product of the magnitudes -/
theorem mul_float (f : Fmt) (h4 : 4 ≤ f.p) (l r a b : Fl) (H : Proofs.ChangeBaseOk f l r b) (ha : a.isFinite = true)
    (hN : Proofs.nmin f ≤ |a.toRat * Fl.toRat (changeBase (flS f) l r b)|)
    (hfin : (Fl.mul f a (changeBase (flS f) l r b)).isFinite = true) :
    |(Fl.mul f a (changeBase (flS f) l r b)).toRat - a.toRat * (b.toRat * r.toRat / l.toRat)| ≤
      4 * Proofs.uro f * |a.toRat * (b.toRat * r.toRat / l.toRat)| :=
  Proofs.mul_mixed_abs_le h4 H ha hN hfin

theorem div_float (f : Fmt) (h4 : 4 ≤ f.p) (l r a b : Fl) (H : Proofs.ChangeBaseOk f l r b) (ha : a.isFinite = true)
    (hN : Proofs.nmin f ≤ |a.toRat / Fl.toRat (changeBase (flS f) l r b)|)
    (hfin : (Fl.div f a (changeBase (flS f) l r b)).isFinite = true) :
    |(Fl.div f a (changeBase (flS f) l r b)).toRat - a.toRat / (b.toRat * r.toRat / l.toRat)| ≤
      4 * Proofs.uro f * |a.toRat / (b.toRat * r.toRat / l.toRat)| :=
  Proofs.div_mixed_abs_le h4 H ha hN hfin

/-- `a + change_base(b)`: within `u·(3|B| + |A+B|)` of the exact sum (cancellation cannot be better
    than relative to the converted operand) -/
theorem add_float (f : Fmt) (h4 : 4 ≤ f.p) (l r a b : Fl) (H : Proofs.ChangeBaseOk f l r b) (ha : Proofs.Ok f a)
    (hfin : (Fl.add f a (changeBase (flS f) l r b)).isFinite = true) :
    |(Fl.add f a (changeBase (flS f) l r b)).toRat - (a.toRat + b.toRat * r.toRat / l.toRat)| ≤
      Proofs.uro f * (3 * |b.toRat * r.toRat / l.toRat| + |a.toRat + b.toRat * r.toRat / l.toRat|) :=
  Proofs.add_mixed_abs_le h4 H ha hfin

theorem sub_float (f : Fmt) (h4 : 4 ≤ f.p) (l r a b : Fl) (H : Proofs.ChangeBaseOk f l r b) (ha : Proofs.Ok f a)
    (hfin : (Fl.sub f a (changeBase (flS f) l r b)).isFinite = true) :
    |(Fl.sub f a (changeBase (flS f) l r b)).toRat - (a.toRat - b.toRat * r.toRat / l.toRat)| ≤
      Proofs.uro f * (3 * |b.toRat * r.toRat / l.toRat| + |a.toRat - b.toRat * r.toRat / l.toRat|) :=
  Proofs.sub_mixed_abs_le h4 H ha hfin

/-- comparisons: whenever the two physical magnitudes differ by more than `4u·max(|A|,|B|)`, the
    mixed-base comparison returns the exact order of the magnitudes -/
theorem cmp_float (f : Fmt) (h4 : 4 ≤ f.p) (l r a b : Fl) (H : Proofs.ChangeBaseOk f l r b) (ha : a.isFinite = true)
    (hgap : 4 * Proofs.uro f * max |a.toRat| |b.toRat * r.toRat / l.toRat| <
      |a.toRat - b.toRat * r.toRat / l.toRat|) :
    Fl.cmp a (changeBase (flS f) l r b) =
      some (if a.toRat < b.toRat * r.toRat / l.toRat then -1
        else if a.toRat = b.toRat * r.toRat / l.toRat then 0 else 1) :=
  Proofs.cmp_mixed_sound h4 H ha hgap

/-! ### the executable operator oracle accepts the model, for every input

`oracleBinFl` (Uom/Model/OpsOracle.lean) is what the driver evaluates on the implementation's observed
results of mixed-base `+ − × ÷ %` and comparisons.  For every canonical binary64 / binary32 operands
and base factors, whatever the model computes (printed the way the harness prints it) is never
rejected — so a run with `DIFF = 0` cannot raise an oracle alarm, and the tolerances are consequences of
the rounding model.  The proof found a real hole in the oracle as first written: its overflow escape
ignored the tolerance, and four kernel-checked binary32 cases show it could have rejected the model
(`oracle_old_escape_rejected_the_model`); the oracle now in use is the repaired one, and the repair
loses no rejection (`Proofs.oracleBinFl_fail_imp_old`). -/

theorem oracle_accepts_ops_f64 (l r a b : Fl)
    (hca : Fl.Canonical b64 a) (hcb : Fl.Canonical b64 b) (hcl : Fl.Canonical b64 l) (hcr : Fl.Canonical b64 r)
    (form : BinForm) (obs : String)
    (hobs : Tri.showRes (flTy "f64" b64) (binOpOn (flTy "f64" b64) form l r a b) = some obs) (why : String) :
    oracleBinFl b64 form.raw l r a b obs ≠ .fail why :=
  Proofs.oracleBinFl_sound_f64 hca hcb hcl hcr form obs hobs why

theorem oracle_accepts_ops_f32 (l r a b : Fl)
    (hca : Fl.Canonical b32 a) (hcb : Fl.Canonical b32 b) (hcl : Fl.Canonical b32 l) (hcr : Fl.Canonical b32 r)
    (form : BinForm) (obs : String)
    (hobs : Tri.showRes (flTy "f32" b32) (binOpOn (flTy "f32" b32) form l r a b) = some obs) (why : String) :
    oracleBinFl b32 form.raw l r a b obs ≠ .fail why :=
  Proofs.oracleBinFl_sound_f32 hca hcb hcl hcr form obs hobs why

/-- kind conversion (`oracleFromFl`, used by C15 as well) -/
theorem oracle_accepts_kind_from (f : Fmt) (hf : f.WF) (h4 : 4 ≤ f.p) (l r a : Fl) (hca : Fl.Canonical f a)
    (sameBase : Bool) (hsame : sameBase = true → l = r ∧ l.isFinite = true ∧ l.isZero = false) (why : String) :
    oracleFromFl f sameBase l r a (kindFromOn (flS f) l r a) ≠ .fail why :=
  Proofs.oracleFromFl_sound hf h4 hca sameBase hsame why

/-- the fused multiply-add oracle (`mad.oracle`: `x.mul_add(a, b)` with all three operands in their own base
    units) never rejects the model — for **every** input, with no canonical-form or finiteness hypothesis
    (the oracle guards those itself).  The proof needed a standard model of `fma` (`Proofs.MoreOracleSound.fma_rel`)
    and exposed why the oracle must guard a zero result whose exact value is below half the least subnormal
    (`oracle_mul_add_underflow_witness`). -/
theorem oracle_accepts_mul_add_f64 (la ra lb rb x a b : Fl) (why : String) :
    oracleMulAdd b64 la ra lb rb x a b (mulAddOn b64 la ra lb rb x a b) ≠ .fail why :=
  Proofs.MoreOracleSound.oracleMulAdd_sound_f64 la ra lb rb x a b why
theorem oracle_accepts_mul_add_f32 (la ra lb rb x a b : Fl) (why : String) :
    oracleMulAdd b32 la ra lb rb x a b (mulAddOn b32 la ra lb rb x a b) ≠ .fail why :=
  Proofs.MoreOracleSound.oracleMulAdd_sound_f32 la ra lb rb x a b why
theorem oracle_mul_add_underflow_witness :
    Proofs.MoreOracleSound.isGuard (oracleMulAdd b32 Proofs.MoreOracleSound.cexMad.l Proofs.MoreOracleSound.cexMad.l
      Proofs.MoreOracleSound.cexMad.l Proofs.MoreOracleSound.cexMad.l Proofs.MoreOracleSound.cexMad.x
      Proofs.MoreOracleSound.cexMad.a Proofs.MoreOracleSound.cexMad.b
      (mulAddOn b32 Proofs.MoreOracleSound.cexMad.l Proofs.MoreOracleSound.cexMad.l Proofs.MoreOracleSound.cexMad.l
        Proofs.MoreOracleSound.cexMad.l Proofs.MoreOracleSound.cexMad.x Proofs.MoreOracleSound.cexMad.a
        Proofs.MoreOracleSound.cexMad.b)) = true :=
  Proofs.MoreOracleSound.oracleMulAdd_guards_underflow

/-- the oracle as first written could reject the model: `a + change_base(b)` overflows to `+∞` while the
    exact sum is still 0.62 u below `MAX` (binary32 witness; `−`, `×`, `÷` have witnesses too) -/
theorem oracle_old_escape_rejected_the_model :
    binOpOn (flTy "f32" b32) .add Proofs.cexAdd.l Proofs.cexAdd.r Proofs.cexAdd.a Proofs.cexAdd.b = .ok (.val (Fl.inf false)) ∧
    ∃ why, Proofs.oracleBinFlOld b32 .add Proofs.cexAdd.l Proofs.cexAdd.r Proofs.cexAdd.a Proofs.cexAdd.b (flHex b32 (Fl.inf false)) = .fail why :=
  Proofs.oracleBinFlOld_rejects_overflow_add

/-- … and the repaired oracle guards exactly those cases -/
theorem oracle_now_guards_those_cases (why : String) :
    oracleBinFl b32 .add Proofs.cexAdd.l Proofs.cexAdd.r Proofs.cexAdd.a Proofs.cexAdd.b (flHex b32 (Fl.inf false)) ≠ .fail why :=
  (Proofs.oracleBinFl_guards_overflow_cases why).1

/-! ### tie to the source: the function bodies regenerated from /repo/src on this run

`Gen.Body.*` below is what the translator read from the Rust source just now; `Body.run` evaluates it
over any storage type.  These theorems state the property's code path *for the regenerated bodies*:
they fail to check as soon as the source computes something else. -/
section SourceTie
open Uom.Body Uom.Gen.Body

theorem src_change_base (N : NumTy) (env : Env N) (v : N.S.V) :
    run N env system_free_change_base [argV v] = argV (changeBase N.S (env.bf .Ul .D) (env.bf .Ur .D) v) :=
  BodyEq.change_base_eq N env v

/-- the regenerated `Add<Quantity<D, Ur, V>> for Quantity<D, Ul, V>` over exact rationals: the result,
    read with the left operand's base factor, is the sum of the two physical magnitudes -/
theorem src_add_phys (env : Env bigRatTy) (a b : Rat) (hl : env.bf .Ul .D ≠ 0) :
    ∃ c, run bigRatTy env system_Add_Quantity_for_Quantity_add_auto [argQ a, argQ b] = argQ c ∧
      c * env.bf .Ul .D = a * env.bf .Ul .D + b * env.bf .Ur .D :=
  ⟨_, rfl, add_phys _ _ a b hl⟩

theorem src_sub_phys (env : Env bigRatTy) (a b : Rat) (hl : env.bf .Ul .D ≠ 0) :
    ∃ c, run bigRatTy env system_Sub_Quantity_for_Quantity_sub_auto [argQ a, argQ b] = argQ c ∧
      c * env.bf .Ul .D = a * env.bf .Ul .D - b * env.bf .Ur .D :=
  ⟨_, rfl, sub_phys _ _ a b hl⟩

/-- `*`: the right operand is converted over *its own* dimension `Dr` -/
theorem src_mul_phys (env : Env bigRatTy) (ll a b : Rat) (hl : env.bf .Ul .Dr ≠ 0) :
    ∃ c, run bigRatTy env system_Mul_Quantity_for_Quantity_mul_auto [argQ a, argQ b] = argQ c ∧
      c * (ll * env.bf .Ul .Dr) = (a * ll) * (b * env.bf .Ur .Dr) :=
  ⟨_, rfl, mul_phys ll _ _ a b hl⟩

/-- every mixed-base arithmetic and comparison form is `binOpOn`: the left stored value, the raw
    operation, `change_base` of the right stored value (for every storage type) -/
theorem src_forms (N : NumTy) (env : Env N) (a b : N.S.V) :
    run N env system_Add_Quantity_for_Quantity_add_auto [argQ a, argQ b] = .q (binOpOn N .add (env.bf .Ul .D) (env.bf .Ur .D) a b) ∧
    run N env system_Sub_Quantity_for_Quantity_sub_auto [argQ a, argQ b] = .q (binOpOn N .sub (env.bf .Ul .D) (env.bf .Ur .D) a b) ∧
    run N env system_Rem_Quantity_for_Quantity_rem_auto [argQ a, argQ b] = .q (binOpOn N .rem (env.bf .Ul .D) (env.bf .Ur .D) a b) ∧
    run N env system_Mul_Quantity_for_Quantity_mul_auto [argQ a, argQ b] = .q (binOpOn N .mul (env.bf .Ul .Dr) (env.bf .Ur .Dr) a b) ∧
    run N env system_Div_Quantity_for_Quantity_div_auto [argQ a, argQ b] = .q (binOpOn N .div (env.bf .Ul .Dr) (env.bf .Ur .Dr) a b) ∧
    run N env system_AddAssign_Quantity_for_Quantity_add_assign_auto [argQ a, argQ b] = .v (binOpOn N .adda (env.bf .Ul .D) (env.bf .Ur .D) a b) ∧
    run N env system_SubAssign_Quantity_for_Quantity_sub_assign_auto [argQ a, argQ b] = .v (binOpOn N .suba (env.bf .Ul .D) (env.bf .Ur .D) a b) ∧
    run N env system_RemAssign_Quantity_for_Quantity_rem_assign_auto [argQ a, argQ b] = .v (binOpOn N .rema (env.bf .Ul .D) (env.bf .Ur .D) a b) ∧
    run N env system_PartialEq_Quantity_for_Quantity_eq_auto [argQ a, argQ b] = .v (binOpOn N .eq (env.bf .Ul .D) (env.bf .Ur .D) a b) ∧
    run N env system_PartialOrd_Quantity_for_Quantity_lt_auto [argQ a, argQ b] = .v (binOpOn N .lt (env.bf .Ul .D) (env.bf .Ur .D) a b) ∧
    run N env system_PartialOrd_Quantity_for_Quantity_partial_cmp_auto [argQ a, argQ b] = .v (binOpOn N .pcmp (env.bf .Ul .D) (env.bf .Ur .D) a b) :=
  ⟨rfl, rfl, rfl, rfl, rfl, rfl, rfl, rfl, rfl, rfl, rfl⟩

/-- `x.mul_add(a, b)` and `x.hypot(y)` convert each operand over its own dimension into the base units of `x` -/
theorem src_mul_add (N : NumTy) (env : Env N) (x a b : N.S.V) :
    run N env system_inherent_Quantity_mul_add_auto [argQ x, argQ a, argQ b]
      = (env.fwd m_mul_add [argV x, argV (changeBase N.S (env.bf .U .Da) (env.bf .Ua .Da) a),
          argV (changeBase N.S (env.bf .U .Dsum) (env.bf .Ub .Dsum) b)]).asQuantity :=
  BodyEq.mul_add_auto_eq N env x a b
theorem src_hypot (N : NumTy) (env : Env N) (a b : N.S.V) :
    run N env system_inherent_Quantity_hypot_auto [argQ a, argQ b]
      = (env.fwd m_hypot [argV a, argV (changeBase N.S (env.bf .U .D) (env.bf .Ur .D) b)]).asQuantity :=
  BodyEq.hypot_auto_eq N env a b

end SourceTie

end Uom.C06
