import Uom.Proofs.OpsExact
import Uom.Proofs.KernelFloat
/-!
# C06 — results do not depend on the base units operands happen to be stored in

`phys F v = v * F`: a stored value `v` of a quantity whose base-unit set has base factor `F` (for the
quantity's dimension) denotes the physical magnitude `v·F` in coherent units.  Each theorem says: the
quantity-level result, read with the *left* operand's base factor, is the raw operation applied to the
two physical magnitudes — exactly for exact storage, for every number of base quantities, every
exponent vector and every (non-zero) base coefficient.
-/
namespace Uom.C06
open Uom

/-- re-expressing the right operand: `change_base` preserves the physical magnitude -/
theorem changeBase_phys (l r v : Rat) (hl : l ≠ 0) : changeBase ratS l r v * l = v * r :=
  Uom.changeBase_phys l r v hl

/-- `+`, `+=`, `TT + TI`, `TI + TT` (the bodies are the same expression) -/
theorem add_phys (l r a b : Rat) (hl : l ≠ 0) :
    (a + changeBase ratS l r b) * l = a * l + b * r := by
  rw [add_mul, Uom.changeBase_phys l r b hl]

/-- `-`, `-=`, `TT - TI` -/
theorem sub_phys (l r a b : Rat) (hl : l ≠ 0) :
    (a - changeBase ratS l r b) * l = a * l - b * r := by
  rw [sub_mul, Uom.changeBase_phys l r b hl]

/-- `*`: the result has dimension `Dl + Dr`; its base factor in the left base units is `ll * lr`
    (`baseFac_add`), where `ll`, `lr` are the left base units' factors for `Dl`, `Dr` -/
theorem mul_phys (ll lr rr a b : Rat) (hl : lr ≠ 0) :
    (a * changeBase ratS lr rr b) * (ll * lr) = (a * ll) * (b * rr) := by
  rw [changeBase_rat]; field_simp

/-- `/`: result dimension `Dl − Dr`, base factor `ll / lr` -/
theorem div_phys (ll lr rr a b : Rat) (hl : lr ≠ 0) (hr : rr ≠ 0) :
    (a / changeBase ratS lr rr b) * (ll / lr) = (a * ll) / (b * rr) := by
  rw [changeBase_rat]
  by_cases hb : b = 0
  · subst hb; simp
  · field_simp

/-- the base factor of a product quantity is the product of the base factors (any number of base
    quantities, any exponents): this is what makes `mul_phys` talk about the right factor -/
theorem baseFactor_add (us : List Rat) (ds es : List Int) (hlen : ds.length = es.length)
    (hus : ∀ u ∈ us, u ≠ 0) :
    baseFac us (List.zipWith (· + ·) ds es) = baseFac us ds * baseFac us es :=
  Uom.baseFac_add us ds es hlen hus

/-- comparisons: with positive base coefficients every comparison form decides the order of the
    physical magnitudes -/
theorem lt_phys (l r a b : Rat) (hl : 0 < l) :
    (a < changeBase ratS l r b) ↔ (a * l < b * r) := by
  rw [← Uom.changeBase_phys l r b (ne_of_gt hl)]
  exact (mul_lt_mul_iff_of_pos_right hl).symm

theorem eq_phys (l r a b : Rat) (hl : l ≠ 0) :
    (a = changeBase ratS l r b) ↔ (a * l = b * r) := by
  rw [← Uom.changeBase_phys l r b hl]
  constructor
  · intro h; rw [h]
  · intro h; exact mul_right_cancel₀ hl h

/-- fused multiply-add `x.mul_add(a, b)`: `x` in base units with factors `lx` (its own dimension),
    `la` (dimension of `a`), and `lx * la` for the result / `b` -/
theorem mul_add_phys (lx la ra rb x a b : Rat) (hla : la ≠ 0) (hlx : lx ≠ 0) :
    (x * changeBase ratS la ra a + changeBase ratS (lx * la) rb b) * (lx * la)
      = (x * lx) * (a * ra) + b * rb := by
  rw [changeBase_rat, changeBase_rat]; field_simp

/-- kind conversion (`From`): magnitude preserved -/
theorem from_phys (l r a : Rat) (hl : l ≠ 0) : kindFromOn ratS l r a * l = a * r :=
  Uom.changeBase_phys l r a hl

/-- floats: the converted right operand is `b·R/L` up to two roundings (no standard-model assumption:
    a theorem about the soft-float), so `+ − * /` are within a few ulps of the exact physical result -/
theorem changeBase_float (f : Fmt) (hp : 1 ≤ f.p) (l r v : Fl) (H : Proofs.ChangeBaseOk f l r v) :
    Proofs.Approx (Proofs.uro f) 2 (Fl.toRat (changeBase (flS f) l r v)) (v.toRat * r.toRat / l.toRat) :=
  Proofs.changeBase_flS_approx hp H

/-- non-vacuity: 2 m (SI) + 3 m stored in kilometre base units (0.003, base factor 1000) = 5 m -/
example : (2 + changeBase ratS 1 1000 (3 / 1000) : Rat) * 1 = 2 * 1 + (3 / 1000) * 1000 := add_phys 1 1000 2 (3/1000) one_ne_zero

end Uom.C06
