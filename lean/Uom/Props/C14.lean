import Uom.Model.Duration
import Uom.Proofs.FlConvIdentity
import Uom.Proofs.DurationBasic
import Uom.Proofs.DurationAcc
import Uom.Proofs.BodyEq.Dur
import Uom.Proofs.DurPowOracleSound
import Uom.Proofs.TimOracleSound
import Uom.Proofs.TextRoundTrip
/-!
# C14 — Time ↔ std Duration conversion is total, classified and accurate

`durOfTimeFl` / `durOfTimeInt` / `timeOfDurFl` transcribe the two `TryFrom` impls of src/si/time.rs.
The full accuracy statement ("whatever base unit the time is stored in") is **refuted** for the code
(known finding F4); the classification theorems and the second-base structure are proved.
-/
namespace Uom.C14
open Uom

theorem durationNew_ne_negative (s n : Nat) : durationNew s n ≠ .negative :=
  DurationBasic.durationNew_ne_negative s n

/-- **negative exactly when strictly negative** (floats): NaN and −0.0 are not negative -/
theorem neg_iff (f : Fmt) (fac cs cn v : Fl) :
    durOfTimeFl f fac cs cn v = .negative ↔ Fl.lt v (Fl.zero f false) = true := by
  unfold durOfTimeFl
  constructor
  · intro h
    by_cases hlt : Fl.lt v (Fl.zero f false) = true
    · exact hlt
    · simp only [hlt] at h
      -- the other branch never yields `negative`
      revert h
      simp only [Bool.false_eq_true, if_false]
      split
      · exact fun h => absurd h (durationNew_ne_negative _ _)
      · simp
  · intro h; simp [h]

theorem neg_zero_not_negative (f : Fmt) : Fl.lt (Fl.zero f true) (Fl.zero f false) = false := by
  simp [Fl.lt, Fl.cmp, Fl.zero, Fl.sval]

theorem nan_not_negative (f : Fmt) : Fl.lt Fl.nan (Fl.zero f false) = false := by
  simp [Fl.lt, Fl.cmp]

/-- NaN reports overflow: `to_u64` of NaN is `None` whatever the conversion does to it -/
theorem toUInt_nan (bits : Nat) : Fl.toUInt bits Fl.nan = none := rfl
theorem toUInt_inf (bits : Nat) (s : Bool) : Fl.toUInt bits (Fl.inf s) = none := rfl

/-- the result is `Ok` only if both parts were representable, and `Duration::new`'s carry is the only
    place a panic could arise: it needs `secs + nanos / 10⁹ ≥ 2⁶⁴` -/
theorem new_total (secs nanos : Nat) (hs : secs + nanos / 1000000000 < 2 ^ 64) :
    durationNew secs nanos = .ok (secs + nanos / 1000000000) (nanos % 1000000000) := by
  unfold durationNew; simp only []; rw [if_pos hs]

/-- with `nanos < 2³²` the carry is at most 4 seconds: no panic unless `secs ≥ 2⁶⁴ − 4`, which no
    float below 2⁶⁴ reaches after truncation (the largest such double is 2⁶⁴ − 2¹¹) -/
theorem carry_small (nanos : Nat) (h : nanos < 2 ^ 32) : nanos / 1000000000 ≤ 4 := by omega

theorem float_below_two64 : (2 ^ 64 - 2 ^ 11 : Nat) + 4 < 2 ^ 64 := by decide

/-- integer storage: negative exactly when the value is negative -/
theorem neg_iff_int (fac cs cn : Rat) (v : Int) : durOfTimeInt fac cs cn v = .negative ↔ v < 0 :=
  DurationBasic.neg_iff_int fac cs cn v

/-- **known finding F10**, as a theorem about the transcription: with integer storage and a time base
    unit longer than a second (`cs / fac < 1`, e.g. the minute: 1/60) every non-negative time panics -/
theorem int_long_base_panics (fac cs cn : Rat) (v : Int) (hv : 0 ≤ v) (hcs : cs ≠ 0) (hf : fac ≠ 0)
    (h : ratTrunc (cs / fac) = 0) : durOfTimeInt fac cs cn v = .panic :=
  DurationBasic.int_long_base_panics fac cs cn v hv hcs hf h

/-- the full accuracy statement for floats, any base unit -/
def accuracy_full (f : Fmt) : Prop :=
  ∀ fac cs cn v : Fl, ∀ s n : Nat, durOfTimeFl f fac cs cn v = .ok s n →
    let t := v.toRat * fac.toRat / cs.toRat
    ((s : Rat) + (n : Rat) / 1000000000 - t) ≤ 1 / 1000000000 + 4 * (1 / ((2 ^ f.p : Nat) : Rat)) * t

/-- **known finding F4**: refuted by 5 s stored in minute base units (binary64): the code answers 5.999999999 s -/
theorem accuracy_full_false : ¬ accuracy_full b64 := by
  intro h
  -- fac = 60, cs = 1, cn = 1e-9, v = 5/60 min (0x3fb5555555555555)
  have := h (Fl.ofBits b64 0x404e000000000000) (Fl.ofBits b64 0x3ff0000000000000) (Fl.ofBits b64 0x3e112e0be826d695)
    (Fl.ofBits b64 0x3fb5555555555555) 5 999999999 (by decide +kernel)
  revert this
  decide +kernel

/-! ### accuracy where it holds: the second base (floats), decimal sub-second bases (integers)

The full statement is refuted above for a non-second base (F4).  In the base the SI aliases use — the
second — it is a theorem, for every canonical value, with the sharp constant: the code multiplies the
fractional part by `1.0 / 1e-9`, which in binary64 is `10⁹ − 2⁻²³`, **not** `10⁹`; every half-integer
number of seconds therefore loses a whole nanosecond (`1.5 s ↦ 1.499999999 s`) and the error can exceed
1 ns by `2⁻²³` ns — still "one nanosecond plus a few ulps of the magnitude", as the property says. -/

/-- binary64, second base: **total** (every finite `0 ≤ v < 2⁶⁴` converts — no panic, no spurious
    overflow) and **accurate** to `(1 + 2⁻²³)` ns -/
theorem accuracy_second_base_f64 (v : Fl) (hc : Fl.Canonical b64 v) (hfin : v.isFinite = true)
    (h0 : 0 ≤ v.toRat) (h64 : v.toRat < 2 ^ 64) :
    ∃ s n : Nat, durOfTimeFl b64 (Fl.one b64) (Fl.one b64) DurationAcc.cn64 v = .ok s n ∧ n < 1000000000 ∧
      |(s : Rat) + (n : Rat) / 1000000000 - v.toRat| < (1 + 1 / 2 ^ 23) / 1000000000 :=
  DurationAcc.total_second_base_b64 hc hfin h0 h64

/-- whatever `Ok` the code returns in the second base obeys the bound (no hypothesis on `v` beyond canonicity) -/
theorem ok_is_accurate_f64 (v : Fl) (hc : Fl.Canonical b64 v) (s n : Nat)
    (h : durOfTimeFl b64 (Fl.one b64) (Fl.one b64) DurationAcc.cn64 v = .ok s n) :
    |(s : Rat) + (n : Rat) / 1000000000 - v.toRat| < (1 + 1 / 2 ^ 23) / 1000000000 :=
  DurationAcc.accuracy_second_base_b64 hc h

/-- binary32: the same with the format's own resolution, `(1 + 10⁹·2⁻²⁴)` ns ≈ 60.6 ns (a few ulps of a
    sub-second magnitude expressed in nanoseconds) -/
theorem accuracy_second_base_f32 (v : Fl) (hc : Fl.Canonical b32 v) (hfin : v.isFinite = true)
    (h0 : 0 ≤ v.toRat) (h64 : v.toRat < 2 ^ 64) :
    ∃ s n : Nat, durOfTimeFl b32 (Fl.one b32) (Fl.one b32) DurationAcc.cn32 v = .ok s n ∧ n < 1000000000 ∧
      |(s : Rat) + (n : Rat) / 1000000000 - v.toRat| < (1 + 1000000000 / 2 ^ 24) / 1000000000 :=
  DurationAcc.total_second_base_b32 hc hfin h0 h64

/-- the nanosecond coefficient used is what the literal `1.0E-9` of src/si/time.rs parses to -/
theorem nanosecond_literal : Fl.ofDecimal b64 1 (-9) = DurationAcc.cn64 ∧ Fl.ofDecimal b32 1 (-9) = DurationAcc.cn32 :=
  ⟨DurationAcc.cn64_literal, DurationAcc.cn32_literal⟩

/-- the bound is sharp: 1.5 s converts to 1.499999999 s, and "≤ 1 ns" is false -/
theorem one_and_a_half_seconds :
    durOfTimeFl b64 (Fl.one b64) (Fl.one b64) DurationAcc.cn64 (Fl.ofBits b64 0x3ff8000000000000) = .ok 1 499999999 :=
  DurationAcc.one_and_a_half
theorem one_nanosecond_is_not_enough : ¬ DurationAcc.accuracy_1ns := DurationAcc.accuracy_1ns_false

/-- values of `2⁶⁴` s or more, `+∞` and NaN report overflow (second base, any float format) -/
theorem overflow_second_base (f : Fmt) (hf : f.WF) (cn v : Fl) (hc : Fl.Canonical f v)
    (hneg : Fl.lt v (Fl.zero f false) = false) (h : v.isFinite = true → (2 : Rat) ^ 64 ≤ v.toRat) :
    durOfTimeFl f (Fl.one f) (Fl.one f) cn v = .overflow :=
  DurationAcc.overflow_second_base hf cn hc hneg h

/-- integer storage in a decimal sub-second base `10⁻ᵏ s` (second k=0, millisecond 3, microsecond 6,
    nanosecond 9): the conversion is **exact** — `s·10⁹ + n = v·10⁹⁻ᵏ`, `n < 10⁹` — or overflow, never a panic -/
theorem int_decimal_base (k : Nat) (hk : k ≤ 9) (v : Int) (hv : 0 ≤ v) :
    durOfTimeInt (1 / 10 ^ k) 1 (1 / 10 ^ 9) v =
      if v / 10 ^ k < 2 ^ 64 then .ok (v / 10 ^ k).toNat ((v % 10 ^ k) * 10 ^ (9 - k)).toNat else .overflow :=
  DurationAcc.durOfTimeInt_decimal k hk v hv

theorem int_decimal_base_exact (k : Nat) (hk : k ≤ 9) (v : Int) (s n : Nat)
    (h : durOfTimeInt (1 / 10 ^ k) 1 (1 / 10 ^ 9) v = .ok s n) :
    (s : Int) * 10 ^ 9 + (n : Int) = v * 10 ^ (9 - k) ∧ n < 10 ^ 9 ∧ (s : Int) = v / 10 ^ k :=
  DurationAcc.durOfTimeInt_decimal_exact k hk v h

/-! ### totality, and the executable oracle accepts the model -/

/-- **"never panics", for floats in any base unit**: the model of `Duration::try_from(time)` never reaches
    `Duration::new`'s overflow panic (a float below 2^64 leaves room for the carry), for every format up to 61
    bits of precision, every base factor and coefficient, every value -/
theorem float_conversion_never_panics (f : Fmt) (hf : f.WF) (hp61 : f.p ≤ 61) (fac cs cn v : Fl) :
    durOfTimeFl f fac cs cn v ≠ .panic := DurPowOracleSound.durOfTimeFl_ne_panic hf hp61 fac cs cn v

/-- the Duration oracle of the driver (`dur.class`, `dur.accuracy`: classification and "within 1 ns + 4u")
    never rejects the model in the second base unit (binary64), for every canonical value incl. NaN, ±∞,
    negatives and values ≥ 2^64 s.  No hypothesis is left: that the printed `ok:<s>:<n>` reads back as `(s, n)`
    is proved too (`Proofs/TextRoundTrip.lean`: `splitOn ":"` characterised for every string, `toNat?` of `repr`). -/
theorem oracle_accepts_duration_f64 {v : Fl} (hc : Fl.Canonical b64 v) (m : String) :
    DurPowOracleSound.NotProp (oracleDurFl b64 (Fl.one b64) (Fl.one b64) DurationAcc.cn64 v m
      (durOfTimeFl b64 (Fl.one b64) (Fl.one b64) DurationAcc.cn64 v).show) :=
  TextRoundTrip.oracleDurFl_sound_second_b64 hc m

/-- in any *other* base unit (positive coefficients) the only thing the oracle can hold against the model is
    the recorded finding F4 — never a classification failure -/
theorem oracle_rejects_model_only_for_F4 (f : Fmt) (hf : f.WF) (hp2 : 2 ≤ f.p) (hp61 : f.p ≤ 61) (fac cs cn v : Fl)
    (hcv : Fl.Canonical f v) (hfac : 0 < fac.toRat) (hcs : 0 < cs.toRat) (hsb : Fl.cmp fac cs ≠ some 0)
    (tag why : String)
    (h : oracleDurFl f fac cs cn v (durOfTimeFl f fac cs cn v).show (durOfTimeFl f fac cs cn v).show = .prop tag why) :
    tag = "dur.F4" := TextRoundTrip.oracleDurFl_tag hf hp2 hp61 fac cs cn v hcv hfac hcs hsb tag why h

/-- the same for binary32 (the f32 nanosecond arithmetic is off by tens of nanoseconds for sub-second values,
    but always inside the oracle's `1 ns + 4u·t`: the error is at most `1 ns + u·t`) -/
theorem oracle_accepts_duration_f32 {v : Fl} (hc : Fl.Canonical b32 v) (m : String) :
    DurPowOracleSound.NotProp (oracleDurFl b32 (Fl.one b32) (Fl.one b32) DurationAcc.cn32 v m
      (durOfTimeFl b32 (Fl.one b32) (Fl.one b32) DurationAcc.cn32 v).show) :=
  TextRoundTrip.oracleDurFl_sound_second_b32 hc m

/-- **Duration → Time**: in the second base the model's result is finite for every real Duration and the
    oracle (`tim.accuracy`: within 8u of seconds + nanoseconds) answers `ok` on it — no hypothesis left, the
    text part (`ok:` prefix, hex round trip) is proved too -/
theorem oracle_accepts_time_of_duration_f64 {s n : Nat} (hs : s < 2 ^ 64) (hn : n < 1000000000) :
    oracleTimFl b64 (Fl.one b64) (Fl.one b64) s n
      ("ok:" ++ flHex b64 (timeOfDurFl b64 (Fl.one b64) (Fl.one b64) DurationAcc.cn64 s n)) = .ok :=
  TimOracleSound.oracleTimFl_sound_second_b64 hs hn
theorem oracle_accepts_time_of_duration_f32 {s n : Nat} (hs : s < 2 ^ 64) (hn : n < 1000000000) :
    oracleTimFl b32 (Fl.one b32) (Fl.one b32) s n
      ("ok:" ++ flHex b32 (timeOfDurFl b32 (Fl.one b32) (Fl.one b32) DurationAcc.cn32 s n)) = .ok :=
  TimOracleSound.oracleTimFl_sound_second_b32 hs hn

/-- Duration → Time accuracy itself: four roundings (`u64 as V`, `u32 as V`, the product with the rounded 10⁻⁹,
    the sum) -/
theorem time_of_duration_accuracy_f64 {s n : Nat} (hs : s < 2 ^ 64) (hn : n < 1000000000) :
    (timeOfDurFl b64 (Fl.one b64) (Fl.one b64) DurationAcc.cn64 s n).isFinite = true ∧
    Proofs.Approx (Proofs.uro b64) 4 (timeOfDurFl b64 (Fl.one b64) (Fl.one b64) DurationAcc.cn64 s n).toRat
      ((s : Rat) + (n : Rat) / 1000000000) :=
  TimOracleSound.timeOfDurFl_second_approx TimOracleSound.nanoOk_b64 hs hn

/-! ### tie to the source: the two `TryFrom` impls regenerated from /repo/src/si/time.rs on this run

`Gen.RxBody.si_time_TryFrom_Time_for_Duration_try_from` / `…_Duration_for_Time_try_from` are what the
translator read from the Rust source just now (the early `return`, the two `let`s, the tuple `match`);
`Rx.run` evaluates them over abstract operations, and over the soft-float model they are `durOfTimeFl` /
`timeOfDurFl` — the functions every theorem above is about. -/
section SourceTieRx
open Uom.Rx Uom.Gen.RxBody Uom.BodyEq.Dur

theorem src_try_from_time {V : Type} (o : DurOps V) (v : V) :
    run (envDur o) si_time_TryFrom_Time_for_Duration_try_from [.host (.q v)] = (embedDur (durSpec o v), []) :=
  try_from_time_eq o v

theorem src_try_from_time_fl (f : Fmt) (fac cs cn v : Fl) :
    run (envDur (flOps f fac cs cn)) si_time_TryFrom_Time_for_Duration_try_from [.host (.q v)] =
      (embedDur (durOfTimeFl f fac cs cn v), []) := try_from_time_fl f fac cs cn v

/-- **classification, for the source**: the regenerated body reports `NegativeDuration` exactly for a
    strictly negative float (so not for −0.0, not for NaN) -/
theorem src_negative_iff (f : Fmt) (fac cs cn v : Fl) :
    (run (envDur (flOps f fac cs cn)) si_time_TryFrom_Time_for_Duration_try_from [.host (.q v)]).1 =
        .val (.ctor1 cErr (.ctor0 c_TryFromError_NegativeDuration)) ↔ Fl.lt v (Fl.zero f false) = true := by
  rw [try_from_time_fl, ← neg_iff f fac cs cn v]
  cases h : durOfTimeFl f fac cs cn v <;>
    simp [embedDur, cOk, cErr, c_TryFromError_NegativeDuration, c_TryFromError_Overflow]

/-- **integer storage: the regenerated body is the exact model `durOfTimeInt`, panics included** — so
    `neg_iff_int`, the finding F10 (`int_long_base_panics`) and the exactness theorems for decimal sub-second
    bases (`int_decimal_base`) are statements about what the *source* computes (with `get`/`new`/`%` of integer
    quantities read as exact rational conversion truncated toward zero, panicking on a zero divisor) -/
theorem src_try_from_time_int (fac cs cn : Rat) (v : Int) :
    run (envDurP (intOps fac cs cn)) si_time_TryFrom_Time_for_Duration_try_from [.host (.q v)] =
      (embedDur (durOfTimeInt fac cs cn v), []) := try_from_time_int fac cs cn v

/-- F10, for the source: with a base unit longer than a second the regenerated body panics for every
    non-negative input -/
theorem src_int_long_base_panics (fac cs cn : Rat) (v : Int) (hv : 0 ≤ v) (hcs : cs ≠ 0) (hf : fac ≠ 0)
    (hlong : ratTrunc (cs / fac) = 0) :
    (run (envDurP (intOps fac cs cn)) si_time_TryFrom_Time_for_Duration_try_from [.host (.q v)]).1 = .panic := by
  rw [try_from_time_int, int_long_base_panics fac cs cn v hv hcs hf hlong]
  rfl

theorem src_try_from_duration {V : Type} (o : DurOps V) (secs nanos : Nat) :
    run (envDur o) si_time_TryFrom_Duration_for_Time_try_from [.host (.dur secs nanos)] =
      (embedTime (timeSpec o secs nanos), []) := try_from_duration_eq o secs nanos

theorem src_try_from_duration_fl (f : Fmt) (fac cs cn : Fl) (secs nanos : Nat) :
    run (envDur (flOps f fac cs cn)) si_time_TryFrom_Duration_for_Time_try_from [.host (.dur secs nanos)] =
      (.val (.ctor1 cOk (.host (.q (timeOfDurFl f fac cs cn secs nanos)))), []) :=
  try_from_duration_fl f fac cs cn secs nanos

end SourceTieRx

end Uom.C14
