import Uom.Model.Duration
import Uom.Proofs.FlConvIdentity
/-!
# C14 — Time ↔ std Duration conversion is total, classified and accurate

`durOfTimeFl` / `durOfTimeInt` / `timeOfDurFl` transcribe the two `TryFrom` impls of src/si/time.rs.
The full accuracy statement ("whatever base unit the time is stored in") is **refuted** for the code
(known finding F4); the classification theorems and the second-base structure are proved.
-/
namespace Uom.C14
open Uom

theorem durationNew_ne_negative (s n : Nat) : durationNew s n ≠ .negative := by
  unfold durationNew; simp only []; split <;> simp

/-- **negative exactly when strictly negative** (floats): NaN and −0.0 are not negative -/
theorem neg_iff (f : Fmt) (fac cs cn v : Fl) :
    durOfTimeFl f fac cs cn v = .negative ↔ Fl.lt v (Fl.zero f false) = true := by
  unfold durOfTimeFl
  constructor
  · intro h
    by_cases hlt : Fl.lt v (Fl.zero f false) = true
    · exact hlt
    · simp only [hlt] at h
      -- the other branch never yields `negative`
      revert h
      simp only [Bool.false_eq_true, if_false]
      split
      · exact fun h => absurd h (durationNew_ne_negative _ _)
      · simp
  · intro h; simp [h]

theorem neg_zero_not_negative (f : Fmt) : Fl.lt (Fl.zero f true) (Fl.zero f false) = false := by
  simp [Fl.lt, Fl.cmp, Fl.zero, Fl.sval]

theorem nan_not_negative (f : Fmt) : Fl.lt Fl.nan (Fl.zero f false) = false := by
  simp [Fl.lt, Fl.cmp]

/-- NaN reports overflow: `to_u64` of NaN is `None` whatever the conversion does to it -/
theorem toUInt_nan (bits : Nat) : Fl.toUInt bits Fl.nan = none := rfl
theorem toUInt_inf (bits : Nat) (s : Bool) : Fl.toUInt bits (Fl.inf s) = none := rfl

/-- the result is `Ok` only if both parts were representable, and `Duration::new`'s carry is the only
    place a panic could arise: it needs `secs + nanos / 10⁹ ≥ 2⁶⁴` -/
theorem new_total (secs nanos : Nat) (hs : secs + nanos / 1000000000 < 2 ^ 64) :
    durationNew secs nanos = .ok (secs + nanos / 1000000000) (nanos % 1000000000) := by
  unfold durationNew; simp [hs]

/-- with `nanos < 2³²` the carry is at most 4 seconds: no panic unless `secs ≥ 2⁶⁴ − 4`, which no
    float below 2⁶⁴ reaches after truncation (the largest such double is 2⁶⁴ − 2¹¹) -/
theorem carry_small (nanos : Nat) (h : nanos < 2 ^ 32) : nanos / 1000000000 ≤ 4 := by omega

theorem float_below_two64 : (2 ^ 64 - 2 ^ 11 : Nat) + 4 < 2 ^ 64 := by decide

/-- integer storage: negative exactly when the value is negative -/
theorem neg_iff_int (fac cs cn : Rat) (v : Int) : durOfTimeInt fac cs cn v = .negative ↔ v < 0 := by
  unfold durOfTimeInt
  constructor
  · intro h
    by_cases hv : v < 0
    · exact hv
    · simp only [hv, if_false] at h
      revert h
      repeat' split
      all_goals first | (intro h; exact absurd h (by simp)) | exact fun h => absurd h (durationNew_ne_negative _ _)
  · intro h; simp [h]

/-- **known finding F10**, as a theorem about the transcription: with integer storage and a time base
    unit longer than a second (`cs / fac < 1`, e.g. the minute: 1/60) every non-negative time panics -/
theorem int_long_base_panics (fac cs cn : Rat) (v : Int) (hv : 0 ≤ v) (hcs : cs ≠ 0) (hf : fac ≠ 0)
    (h : ratTrunc (cs / fac) = 0) : durOfTimeInt fac cs cn v = .panic := by
  unfold durOfTimeInt
  have : ¬ v < 0 := by omega
  simp [this, hcs, hf, h]

/-- the full accuracy statement for floats, any base unit -/
def accuracy_full (f : Fmt) : Prop :=
  ∀ fac cs cn v : Fl, ∀ s n : Nat, durOfTimeFl f fac cs cn v = .ok s n →
    let t := v.toRat * fac.toRat / cs.toRat
    ((s : Rat) + (n : Rat) / 1000000000 - t) ≤ 1 / 1000000000 + 4 * (1 / ((2 ^ f.p : Nat) : Rat)) * t

/-- **known finding F4**: refuted by 5 s stored in minute base units (binary64): the code answers 5.999999999 s -/
theorem accuracy_full_false : ¬ accuracy_full b64 := by
  intro h
  -- fac = 60, cs = 1, cn = 1e-9, v = 5/60 min (0x3fb5555555555555)
  have := h (Fl.ofBits b64 0x404e000000000000) (Fl.ofBits b64 0x3ff0000000000000) (Fl.ofBits b64 0x3e112e0be826d695)
    (Fl.ofBits b64 0x3fb5555555555555) 5 999999999 (by decide +kernel)
  revert this
  decide +kernel

end Uom.C14
