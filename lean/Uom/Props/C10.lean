import Uom.Proofs.OpsExact
import Uom.Proofs.FlConvIdentity
/-!
# C10 — equality, ordering and hashing of quantities are mutually coherent

Every comparison form is `V::cmp_op(self.value, change_base(other.value))` with the *same* converted
right operand, so the ten observables are functions of one `partial_cmp` result.
-/
namespace Uom.C10
open Uom

/-- the `partial_cmp` result both operands are compared through -/
def pc (N : NumTy) (l r : N.S.T) (a b : N.S.V) : Option Int := N.cmp a (changeBase N.S l r b)

theorem pcmp_form (N : NumTy) (l r : N.S.T) (a b : N.S.V) :
    binOpOn N .pcmp l r a b = .ok (.ord (pc N l r a b)) := rfl

theorem lt_iff (N : NumTy) (l r : N.S.T) (a b : N.S.V) :
    binOpOn N .lt l r a b = .ok (.bool (pc N l r a b == some (-1))) := rfl

theorem gt_iff (N : NumTy) (l r : N.S.T) (a b : N.S.V) :
    binOpOn N .gt l r a b = .ok (.bool (pc N l r a b == some 1)) := rfl

theorem eq_iff (N : NumTy) (l r : N.S.T) (a b : N.S.V) :
    binOpOn N .eq l r a b = .ok (.bool (pc N l r a b == some 0)) := rfl

/-- `!=` is the negation of `==` -/
theorem ne_iff (N : NumTy) (l r : N.S.T) (a b : N.S.V) :
    binOpOn N .ne l r a b = .ok (.bool (!(pc N l r a b == some 0))) := by
  unfold binOpOn rawBin pc; simp [BinForm.raw, bne]

/-- `<=` holds iff `<` or `==` -/
theorem le_iff (N : NumTy) (l r : N.S.T) (a b : N.S.V) :
    binOpOn N .le l r a b = .ok (.bool (pc N l r a b == some (-1) || pc N l r a b == some 0)) := rfl

theorem ge_iff (N : NumTy) (l r : N.S.T) (a b : N.S.V) :
    binOpOn N .ge l r a b = .ok (.bool (pc N l r a b == some 1 || pc N l r a b == some 0)) := rfl

/-- unordered operands (NaN): all six operators except `!=` are false and `partial_cmp` is `None` -/
theorem unordered (N : NumTy) (l r : N.S.T) (a b : N.S.V) (h : pc N l r a b = none) :
    binOpOn N .lt l r a b = .ok (.bool false) ∧ binOpOn N .le l r a b = .ok (.bool false) ∧
    binOpOn N .gt l r a b = .ok (.bool false) ∧ binOpOn N .ge l r a b = .ok (.bool false) ∧
    binOpOn N .eq l r a b = .ok (.bool false) ∧ binOpOn N .ne l r a b = .ok (.bool true) := by
  rw [lt_iff, le_iff, gt_iff, ge_iff, eq_iff, ne_iff, h]
  simp

/-- NaN-valued quantities are unordered exactly as NaN is -/
theorem nan_unordered_left (x : Fl) : Fl.cmp Fl.nan x = none := by cases x <;> rfl
theorem nan_unordered_right (x : Fl) : Fl.cmp x Fl.nan = none := by cases x <;> rfl

/-- every non-NaN float equals itself (so does every quantity holding it, in any base units: same-base
    `change_base` is the identity, C07) -/
theorem refl_non_nan (x : Fl) (h : x ≠ Fl.nan) : Fl.cmp x x = some 0 := by
  cases x with
  | nan => exact absurd rfl h
  | inf s => simp [Fl.cmp]
  | fin s m e => exact Fl.cmp_self_fin s m e

/-- swapping the operands mirrors the answer (floats) -/
theorem mirror_float (x y : Fl) : Fl.cmp x y = (Fl.cmp y x).map (fun c => -c) := by
  cases x with
  | nan => cases y <;> rfl
  | inf a => cases y with
    | nan => rfl
    | inf b => cases a <;> cases b <;> rfl
    | fin _ _ _ => cases a <;> rfl
  | fin s1 m1 e1 => cases y with
    | nan => rfl
    | inf b => cases b <;> rfl
    | fin s2 m2 e2 =>
      simp only [Fl.cmp, Option.map_some, Option.some.injEq]
      rw [Int.min_comm e2 e1]
      split <;> split <;> (try split) <;> (try split) <;> omega

/-- exact / integer storage: mirror -/
theorem mirror_rat (x y : Rat) : ratCmp x y = (ratCmp y x).map (fun c => -c) := by
  unfold ratCmp
  rcases lt_trichotomy x y with h | h | h
  · have h1 : ¬ y < x := not_lt.mpr h.le
    have h2 : ¬ y = x := fun e => by rw [e] at h; exact lt_irrefl _ h
    simp [h, h1, h2]
  · subst h; simp
  · have h1 : ¬ x < y := not_lt.mpr h.le
    have h2 : ¬ x = y := fun e => by rw [e] at h; exact lt_irrefl _ h
    simp [h, h1, h2]

/-- hashing: `Hash for Quantity` hashes the stored value only, so equal quantities of one type (equal
    stored values, for the `Eq` storage types) hash equally whatever the hasher -/
theorem eq_hash {V H : Type} (hash : V → H) (a b : V) (h : a = b) : hash a = hash b := by rw [h]

end Uom.C10
