import Uom.Proofs.OpsExact
import Uom.Proofs.FlConvIdentity
import Uom.Proofs.BodyEq.Cmp
import Uom.Proofs.FloatOps
import Uom.Proofs.OpsOracleSound
/-!
# C10 — equality, ordering and hashing of quantities are mutually coherent

Every comparison form is `V::cmp_op(self.value, change_base(other.value))` with the *same* converted
right operand, so the ten observables are functions of one `partial_cmp` result.
-/
namespace Uom.C10
open Uom

/-- the `partial_cmp` result both operands are compared through -/
def pc (N : NumTy) (l r : N.S.T) (a b : N.S.V) : Option Int := N.cmp a (changeBase N.S l r b)

theorem pcmp_form (N : NumTy) (l r : N.S.T) (a b : N.S.V) :
    binOpOn N .pcmp l r a b = .ok (.ord (pc N l r a b)) := rfl

theorem lt_iff (N : NumTy) (l r : N.S.T) (a b : N.S.V) :
    binOpOn N .lt l r a b = .ok (.bool (pc N l r a b == some (-1))) := rfl

theorem gt_iff (N : NumTy) (l r : N.S.T) (a b : N.S.V) :
    binOpOn N .gt l r a b = .ok (.bool (pc N l r a b == some 1)) := rfl

theorem eq_iff (N : NumTy) (l r : N.S.T) (a b : N.S.V) :
    binOpOn N .eq l r a b = .ok (.bool (pc N l r a b == some 0)) := rfl

/-- `!=` is the negation of `==` -/
theorem ne_iff (N : NumTy) (l r : N.S.T) (a b : N.S.V) :
    binOpOn N .ne l r a b = .ok (.bool (!(pc N l r a b == some 0))) := by
  unfold binOpOn rawBin pc; simp [BinForm.raw, bne]

/-- `<=` holds iff `<` or `==` -/
theorem le_iff (N : NumTy) (l r : N.S.T) (a b : N.S.V) :
    binOpOn N .le l r a b = .ok (.bool (pc N l r a b == some (-1) || pc N l r a b == some 0)) := rfl

theorem ge_iff (N : NumTy) (l r : N.S.T) (a b : N.S.V) :
    binOpOn N .ge l r a b = .ok (.bool (pc N l r a b == some 1 || pc N l r a b == some 0)) := rfl

/-- unordered operands (NaN): all six operators except `!=` are false and `partial_cmp` is `None` -/
theorem unordered (N : NumTy) (l r : N.S.T) (a b : N.S.V) (h : pc N l r a b = none) :
    binOpOn N .lt l r a b = .ok (.bool false) ∧ binOpOn N .le l r a b = .ok (.bool false) ∧
    binOpOn N .gt l r a b = .ok (.bool false) ∧ binOpOn N .ge l r a b = .ok (.bool false) ∧
    binOpOn N .eq l r a b = .ok (.bool false) ∧ binOpOn N .ne l r a b = .ok (.bool true) := by
  rw [lt_iff, le_iff, gt_iff, ge_iff, eq_iff, ne_iff, h]
  simp

/-- NaN-valued quantities are unordered exactly as NaN is -/
theorem nan_unordered_left (x : Fl) : Fl.cmp Fl.nan x = none := by cases x <;> rfl
theorem nan_unordered_right (x : Fl) : Fl.cmp x Fl.nan = none := by cases x <;> rfl

/-- every non-NaN float equals itself (so does every quantity holding it, in any base units: same-base
    `change_base` is the identity, C07) -/
theorem refl_non_nan (x : Fl) (h : x ≠ Fl.nan) : Fl.cmp x x = some 0 := by
  cases x with
  | nan => exact absurd rfl h
  | inf s => simp [Fl.cmp]
  | fin s m e => exact Fl.cmp_self_fin s m e

/-- swapping the operands mirrors the answer (floats) -/
theorem mirror_float (x y : Fl) : Fl.cmp x y = (Fl.cmp y x).map (fun c => -c) := by
  cases x with
  | nan => cases y <;> rfl
  | inf a => cases y with
    | nan => rfl
    | inf b => cases a <;> cases b <;> rfl
    | fin _ _ _ => cases a <;> rfl
  | fin s1 m1 e1 => cases y with
    | nan => rfl
    | inf b => cases b <;> rfl
    | fin s2 m2 e2 =>
      simp only [Fl.cmp, Option.map_some, Option.some.injEq]
      rw [Int.min_comm e2 e1]
      split <;> split <;> (try split) <;> (try split) <;> omega

/-- exact / integer storage: mirror -/
theorem mirror_rat (x y : Rat) : ratCmp x y = (ratCmp y x).map (fun c => -c) := by
  unfold ratCmp
  rcases lt_trichotomy x y with h | h | h
  · have h1 : ¬ y < x := not_lt.mpr h.le
    have h2 : ¬ y = x := fun e => by rw [e] at h; exact lt_irrefl _ h
    simp [h, h1, h2]
  · subst h; simp
  · have h1 : ¬ x < y := not_lt.mpr h.le
    have h2 : ¬ x = y := fun e => by rw [e] at h; exact lt_irrefl _ h
    simp [h, h1, h2]

/-- hashing: `Hash for Quantity` hashes the stored value only, so equal quantities of one type (equal
    stored values, for the `Eq` storage types) hash equally whatever the hasher -/
theorem eq_hash {V H : Type} (hash : V → H) (a b : V) (h : a = b) : hash a = hash b := by rw [h]

/-! ### floats: proved bounds — mixed-base comparison agrees with the order of the physical magnitudes -/

/-- finite floats are totally ordered as their rational values are -/
theorem cmp_finite (x y : Fl) (hx : x.isFinite = true) (hy : y.isFinite = true) :
    Fl.cmp x y = some (if x.toRat < y.toRat then -1 else if x.toRat = y.toRat then 0 else 1) :=
  Proofs.cmp_toRat hx hy

/-- outside a band of `3u|B|` around equality the mixed-base comparison is exact -/
theorem cmp_mixed (f : Fmt) (h4 : 4 ≤ f.p) (l r a b : Fl) (H : Proofs.ChangeBaseOk f l r b) (ha : a.isFinite = true)
    (hgap : 3 * Proofs.uro f * |b.toRat * r.toRat / l.toRat| < |a.toRat - b.toRat * r.toRat / l.toRat|) :
    Fl.cmp a (changeBase (flS f) l r b) =
      some (if a.toRat < b.toRat * r.toRat / l.toRat then -1
        else if a.toRat = b.toRat * r.toRat / l.toRat then 0 else 1) :=
  Proofs.cmp_mixed_sound' h4 H ha hgap

/-- `==` between mixed-base quantities only ever holds for magnitudes within two roundings of each other -/
theorem eq_mixed (f : Fmt) (hp : 1 ≤ f.p) (l r a b : Fl) (H : Proofs.ChangeBaseOk f l r b) (ha : a.isFinite = true)
    (h : Fl.feq a (changeBase (flS f) l r b) = true) :
    |a.toRat - b.toRat * r.toRat / l.toRat| ≤
      ((1 - Proofs.uro f) ^ (-(2 : ℤ)) - 1) * |b.toRat * r.toRat / l.toRat| :=
  Proofs.feq_mixed_sound hp H ha h

/-! ### the executable comparison oracle accepts the model, for every input

The comparison clauses of `oracleBinFl` (exact order of the physical magnitudes outside a band of
`4u·max(|A|,|B|)`; no band at all when the base units coincide) never reject what the model computes. -/
theorem oracle_accepts_comparisons (f : Fmt) (hf : f.WF) (h4 : 4 ≤ f.p) (hw : f.p < f.w)
    (hexp : f.emax = f.emin + ((2 ^ (f.w - f.p) : Nat) : Int) - 3) (name : String) (l r a b : Fl)
    (hca : Fl.Canonical f a) (hcb : Fl.Canonical f b) (hcl : Fl.Canonical f l) (hcr : Fl.Canonical f r)
    (op : RawBin) (bres : Bool) (hres : rawBin (flTy name f) op a (changeBase (flS f) l r b) = .ok (.bool bres)) (why : String) :
    oracleBinFl f op l r a b (if bres = true then "1" else "0") ≠ .fail why :=
  Proofs.oracleBinFl_cmp_sound name hf h4 hw hexp hca hcb hcl hcr op bres hres why

theorem oracle_accepts_partial_cmp (f : Fmt) (hf : f.WF) (h4 : 4 ≤ f.p) (hw : f.p < f.w)
    (hexp : f.emax = f.emin + ((2 ^ (f.w - f.p) : Nat) : Int) - 3) (name : String) (l r a b : Fl)
    (hca : Fl.Canonical f a) (hcb : Fl.Canonical f b) (hcl : Fl.Canonical f l) (hcr : Fl.Canonical f r) (why : String) :
    oracleBinFl f .pcmp l r a b (Res.show (flTy name f) (.ord (Fl.cmp a (changeBase (flS f) l r b)))) ≠ .fail why :=
  Proofs.oracleBinFl_pcmp_sound name hf h4 hw hexp hca hcb hcl hcr why

/-! ### tie to the source: the function bodies regenerated from /repo/src on this run

`Gen.Body.*` below is what the translator read from the Rust source just now; `Body.run` evaluates it
over any storage type.  These theorems state the property's code path *for the regenerated bodies*:
they fail to check as soon as the source computes something else. -/
section SourceTie
open Uom.Body Uom.Gen.Body

/-- all six comparison entry points and `partial_cmp` compare the left stored value with `change_base`
    of the right one through the storage type's own comparison; `Ord::cmp` and `Hash::hash` see the
    stored value only -/
theorem src_comparisons (N : NumTy) (env : Env N) (a b : N.S.V) (st : Val N) :
    run N env system_PartialEq_Quantity_for_Quantity_eq_auto [argQ a, argQ b] = .v (binOpOn N .eq (env.bf .Ul .D) (env.bf .Ur .D) a b) ∧
    run N env system_PartialOrd_Quantity_for_Quantity_lt_auto [argQ a, argQ b] = .v (binOpOn N .lt (env.bf .Ul .D) (env.bf .Ur .D) a b) ∧
    run N env system_PartialOrd_Quantity_for_Quantity_le_auto [argQ a, argQ b] = .v (binOpOn N .le (env.bf .Ul .D) (env.bf .Ur .D) a b) ∧
    run N env system_PartialOrd_Quantity_for_Quantity_gt_auto [argQ a, argQ b] = .v (binOpOn N .gt (env.bf .Ul .D) (env.bf .Ur .D) a b) ∧
    run N env system_PartialOrd_Quantity_for_Quantity_ge_auto [argQ a, argQ b] = .v (binOpOn N .ge (env.bf .Ul .D) (env.bf .Ur .D) a b) ∧
    run N env system_PartialOrd_Quantity_for_Quantity_partial_cmp_auto [argQ a, argQ b] = .v (binOpOn N .pcmp (env.bf .Ul .D) (env.bf .Ur .D) a b) ∧
    run N env system_PartialEq_for_Quantity_eq_noauto [argQ a, argQ b] = .v (binOpOff N .eq a b) ∧
    run N env system_PartialOrd_for_Quantity_lt_noauto [argQ a, argQ b] = .v (binOpOff N .lt a b) ∧
    run N env system_PartialOrd_for_Quantity_le_noauto [argQ a, argQ b] = .v (binOpOff N .le a b) ∧
    run N env system_PartialOrd_for_Quantity_gt_noauto [argQ a, argQ b] = .v (binOpOff N .gt a b) ∧
    run N env system_PartialOrd_for_Quantity_ge_noauto [argQ a, argQ b] = .v (binOpOff N .ge a b) ∧
    run N env system_PartialOrd_for_Quantity_partial_cmp_noauto [argQ a, argQ b] = .v (binOpOff N .pcmp a b) ∧
    run N env system_Ord_for_Quantity_cmp [argQ a, argQ b] = env.fwd m_cmp [argV a, argV b] ∧
    run N env system_Hash_for_Quantity_hash [argQ a, st] = env.fwd m_hash [argV a, st] :=
  ⟨rfl, rfl, rfl, rfl, rfl, rfl, rfl, rfl, rfl, rfl, rfl, rfl, rfl, rfl⟩

end SourceTie

end Uom.C10
