import Uom.Proofs.OpsExact
import Uom.Proofs.FlConvIdentity
/-!
# C07 — same-base operations equal the storage type's operations over any history

`binOpOn N form l r a b` is the autoconvert implementation of a quantity-level binary form
(`self.value ⊙ change_base::<D, Ul, Ur, V>(&rhs.value)`), `rawBin N op a b` the bare operation of the
storage type.  When both operands share base units (`l = r`) the conversion is the identity, so the
quantity-level result is the raw result — for every form, and by induction for every history.
-/
namespace Uom.C07
open Uom

/-- floats: `change_base` between identical base units is the bit-exact identity for every canonical
    value (NaN, ±∞, ±0, subnormals included), whatever (finite, non-zero) the base factor is -/
theorem changeBase_same_float (f : Fmt) (hf : f.WF) (l v : Fl) (hv : Fl.Canonical f v)
    (hfin : l.isFinite = true) (hnz : l.isZero = false) :
    changeBase (flS f) l l v = v :=
  Fl.changeBase_id' hf v l hv hfin hnz

/-- exact rationals -/
theorem changeBase_same_rat (l v : Rat) (hl : l ≠ 0) : changeBase ratS l l v = v :=
  Uom.changeBase_same_rat l v hl

/-- integers (the factor type is a ratio, `value()` truncates: nothing to truncate) -/
theorem changeBase_same_int (l : Rat) (v : Int) (hl : l ≠ 0) : changeBase intS l l v = v :=
  Uom.changeBase_same_int l v hl

/-- every binary form between same-base quantities is the raw operation on the stored values
    (stated for any storage type on which same-base `change_base` is the identity at the operand) -/
theorem op_is_raw (N : NumTy) (form : BinForm) (l : N.S.T) (a b : N.S.V)
    (hid : changeBase N.S l l b = b) :
    binOpOn N form l l a b = rawBin N form.raw a b := by
  unfold binOpOn; rw [hid]

/-- the same, against the autoconvert-off implementation -/
theorem op_on_eq_off (N : NumTy) (form : BinForm) (l : N.S.T) (a b : N.S.V)
    (hid : changeBase N.S l l b = b) :
    binOpOn N form l l a b = binOpOff N form a b := op_is_raw N form l a b hid

/-- **History.**  After any sequence of same-base operations the quantity register holds exactly what
    the bare-number register holds (induction over the operation list). -/
theorem history (N : NumTy) (l : N.S.T) (init : N.S.V) (steps : List (Step N.S.V))
    (hid : ∀ s ∈ steps, changeBase N.S l l s.operand = s.operand) :
    runQ N l init steps = runRaw N init steps := by
  unfold runQ runRaw
  generalize (Tri.ok init : Tri N.S.V) = reg
  induction steps generalizing reg with
  | nil => rfl
  | cons s ss ih =>
    simp only [List.foldl_cons]
    have hs : stepQ N l reg s = stepRaw N reg s := by
      unfold stepQ stepRaw
      cases reg with
      | ok a => simp only [Tri.bind]; rw [op_is_raw N s.form l a s.operand (hid s List.mem_cons_self)]
      | panic => rfl
      | unsure => rfl
    rw [hs]
    exact ih (fun t ht => hid t (List.mem_cons_of_mem _ ht)) _

/-- the history theorem instantiated for binary64 in *any* base units with finite non-zero base factor
    (e.g. centimetre-gram-second), operands any canonical doubles -/
theorem history_f64 (l : Fl) (hfin : l.isFinite = true) (hnz : l.isZero = false)
    (init : Fl) (steps : List (Step Fl)) (hc : ∀ s ∈ steps, Fl.Canonical b64 s.operand) :
    runQ (flTy "f64" b64) l init steps = runRaw (flTy "f64" b64) init steps :=
  history (flTy "f64" b64) l init steps (fun s hs => changeBase_same_float b64 b64_wf l s.operand (hc s hs) hfin hnz)

theorem history_f32 (l : Fl) (hfin : l.isFinite = true) (hnz : l.isZero = false)
    (init : Fl) (steps : List (Step Fl)) (hc : ∀ s ∈ steps, Fl.Canonical b32 s.operand) :
    runQ (flTy "f32" b32) l init steps = runRaw (flTy "f32" b32) init steps :=
  history (flTy "f32" b32) l init steps (fun s hs => changeBase_same_float b32 b32_wf l s.operand (hc s hs) hfin hnz)

theorem history_bigrational (l : Rat) (hl : l ≠ 0) (init : Rat) (steps : List (Step Rat)) :
    runQ bigRatTy l init steps = runRaw bigRatTy init steps :=
  history bigRatTy l init steps (fun s _ => changeBase_same_rat l s.operand hl)

theorem history_bigint (l : Rat) (hl : l ≠ 0) (init : Int) (steps : List (Step Int)) :
    runQ (bigIntTy "bigint" false) l init steps = runRaw (bigIntTy "bigint" false) init steps :=
  history (bigIntTy "bigint" false) l init steps (fun s _ => changeBase_same_int l s.operand hl)

theorem history_fixint (name : String) (bits : Nat) (signed : Bool) (l : Rat) (hl : l ≠ 0) (init : Int)
    (steps : List (Step Int)) :
    runQ (fixIntTy name bits signed) l init steps = runRaw (fixIntTy name bits signed) init steps :=
  history (fixIntTy name bits signed) l init steps (fun s _ => changeBase_same_int l s.operand hl)

/-- non-vacuity: a concrete binary64 history in centimetre base units (`l = 0.01`): `1.0 + 0.1 − 2.5`, then `< 7` -/
example : (match runQ (flTy "f64" b64) (Fl.ofBits b64 0x3f847ae147ae147b) (Fl.ofBits b64 0x3ff0000000000000)
      [⟨.add, Fl.ofBits b64 0x3fb999999999999a⟩, ⟨.sub, Fl.ofBits b64 0x4004000000000000⟩, ⟨.lt, Fl.ofBits b64 0x401c000000000000⟩] with
    | .ok v => Fl.toBits b64 v | _ => 0) = 0xbff6666666666666 := by decide +kernel

end Uom.C07
