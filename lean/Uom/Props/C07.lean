import Uom.Proofs.OpsExact
import Uom.Proofs.FlConvIdentity
import Uom.Proofs.BodyEq.Arith
import Uom.Proofs.BodyEq.Cmp
import Uom.Proofs.BodyEq.Fwd
import Uom.Gen.Sigs
/-!
# C07 — same-base operations equal the storage type's operations over any history

`binOpOn N form l r a b` is the autoconvert implementation of a quantity-level binary form
(`self.value ⊙ change_base::<D, Ul, Ur, V>(&rhs.value)`), `rawBin N op a b` the bare operation of the
storage type.  When both operands share base units (`l = r`) the conversion is the identity, so the
quantity-level result is the raw result — for every form, and by induction for every history.
-/
namespace Uom.C07
open Uom

/-- floats: `change_base` between identical base units is the bit-exact identity for every canonical
    value (NaN, ±∞, ±0, subnormals included), whatever (finite, non-zero) the base factor is -/
theorem changeBase_same_float (f : Fmt) (hf : f.WF) (l v : Fl) (hv : Fl.Canonical f v)
    (hfin : l.isFinite = true) (hnz : l.isZero = false) :
    changeBase (flS f) l l v = v :=
  Fl.changeBase_id' hf v l hv hfin hnz

/-- exact rationals -/
theorem changeBase_same_rat (l v : Rat) (hl : l ≠ 0) : changeBase ratS l l v = v :=
  Uom.changeBase_same_rat l v hl

/-- integers (the factor type is a ratio, `value()` truncates: nothing to truncate) -/
theorem changeBase_same_int (l : Rat) (v : Int) (hl : l ≠ 0) : changeBase intS l l v = v :=
  Uom.changeBase_same_int l v hl

/-- every binary form between same-base quantities is the raw operation on the stored values
    (stated for any storage type on which same-base `change_base` is the identity at the operand) -/
theorem op_is_raw (N : NumTy) (form : BinForm) (l : N.S.T) (a b : N.S.V)
    (hid : changeBase N.S l l b = b) :
    binOpOn N form l l a b = rawBin N form.raw a b := by
  unfold binOpOn; rw [hid]

/-- the same, against the autoconvert-off implementation -/
theorem op_on_eq_off (N : NumTy) (form : BinForm) (l : N.S.T) (a b : N.S.V)
    (hid : changeBase N.S l l b = b) :
    binOpOn N form l l a b = binOpOff N form a b := op_is_raw N form l a b hid

/-- **History.**  After any sequence of same-base operations the quantity register holds exactly what
    the bare-number register holds (induction over the operation list). -/
theorem history (N : NumTy) (l : N.S.T) (init : N.S.V) (steps : List (Step N.S.V))
    (hid : ∀ s ∈ steps, changeBase N.S l l s.operand = s.operand) :
    runQ N l init steps = runRaw N init steps := by
  unfold runQ runRaw
  generalize (Tri.ok init : Tri N.S.V) = reg
  induction steps generalizing reg with
  | nil => rfl
  | cons s ss ih =>
    simp only [List.foldl_cons]
    have hs : stepQ N l reg s = stepRaw N reg s := by
      unfold stepQ stepRaw
      cases reg with
      | ok a => simp only [Tri.bind]; rw [op_is_raw N s.form l a s.operand (hid s List.mem_cons_self)]
      | panic => rfl
      | unsure => rfl
    rw [hs]
    exact ih (fun t ht => hid t (List.mem_cons_of_mem _ ht)) _

/-- the history theorem instantiated for binary64 in *any* base units with finite non-zero base factor
    (e.g. centimetre-gram-second), operands any canonical doubles -/
theorem history_f64 (l : Fl) (hfin : l.isFinite = true) (hnz : l.isZero = false)
    (init : Fl) (steps : List (Step Fl)) (hc : ∀ s ∈ steps, Fl.Canonical b64 s.operand) :
    runQ (flTy "f64" b64) l init steps = runRaw (flTy "f64" b64) init steps :=
  history (flTy "f64" b64) l init steps (fun s hs => changeBase_same_float b64 b64_wf l s.operand (hc s hs) hfin hnz)

theorem history_f32 (l : Fl) (hfin : l.isFinite = true) (hnz : l.isZero = false)
    (init : Fl) (steps : List (Step Fl)) (hc : ∀ s ∈ steps, Fl.Canonical b32 s.operand) :
    runQ (flTy "f32" b32) l init steps = runRaw (flTy "f32" b32) init steps :=
  history (flTy "f32" b32) l init steps (fun s hs => changeBase_same_float b32 b32_wf l s.operand (hc s hs) hfin hnz)

theorem history_bigrational (l : Rat) (hl : l ≠ 0) (init : Rat) (steps : List (Step Rat)) :
    runQ bigRatTy l init steps = runRaw bigRatTy init steps :=
  history bigRatTy l init steps (fun s _ => changeBase_same_rat l s.operand hl)

theorem history_bigint (l : Rat) (hl : l ≠ 0) (init : Int) (steps : List (Step Int)) :
    runQ (bigIntTy "bigint" false) l init steps = runRaw (bigIntTy "bigint" false) init steps :=
  history (bigIntTy "bigint" false) l init steps (fun s _ => changeBase_same_int l s.operand hl)

theorem history_fixint (name : String) (bits : Nat) (signed : Bool) (l : Rat) (hl : l ≠ 0) (init : Int)
    (steps : List (Step Int)) :
    runQ (fixIntTy name bits signed) l init steps = runRaw (fixIntTy name bits signed) init steps :=
  history (fixIntTy name bits signed) l init steps (fun s _ => changeBase_same_int l s.operand hl)

/-- non-vacuity: a concrete binary64 history in centimetre base units (`l = 0.01`): `1.0 + 0.1 − 2.5`, then `< 7` -/
example : (match runQ (flTy "f64" b64) (Fl.ofBits b64 0x3f847ae147ae147b) (Fl.ofBits b64 0x3ff0000000000000)
      [⟨.add, Fl.ofBits b64 0x3fb999999999999a⟩, ⟨.sub, Fl.ofBits b64 0x4004000000000000⟩, ⟨.lt, Fl.ofBits b64 0x401c000000000000⟩] with
    | .ok v => Fl.toBits b64 v | _ => 0) = 0xbff6666666666666 := by decide +kernel

/-! ### tie to the source: the function bodies regenerated from /repo/src on this run

`Gen.Body.*` below is what the translator read from the Rust source just now; `Body.run` evaluates it
over any storage type.  These theorems state the property's code path *for the regenerated bodies*:
they fail to check as soon as the source computes something else. -/
section SourceTie
open Uom.Body Uom.Gen.Body

/-- autoconvert **off**: every regenerated operator body is the bare operation on the stored values -/
theorem src_off_is_raw (N : NumTy) (env : Env N) (a b : N.S.V) :
    run N env system_Add_for_Quantity_add_noauto [argQ a, argQ b] = .q (rawBin N .add a b) ∧
    run N env system_Sub_for_Quantity_sub_noauto [argQ a, argQ b] = .q (rawBin N .sub a b) ∧
    run N env system_Rem_for_Quantity_rem_noauto [argQ a, argQ b] = .q (rawBin N .rem a b) ∧
    run N env system_Mul_Quantity_for_Quantity_mul_noauto [argQ a, argQ b] = .q (rawBin N .mul a b) ∧
    run N env system_Div_Quantity_for_Quantity_div_noauto [argQ a, argQ b] = .q (rawBin N .div a b) ∧
    run N env system_AddAssign_for_Quantity_add_assign_noauto [argQ a, argQ b] = .v (rawBin N .add a b) ∧
    run N env system_SubAssign_for_Quantity_sub_assign_noauto [argQ a, argQ b] = .v (rawBin N .sub a b) ∧
    run N env system_RemAssign_for_Quantity_rem_assign_noauto [argQ a, argQ b] = .v (rawBin N .rem a b) ∧
    run N env system_PartialEq_for_Quantity_eq_noauto [argQ a, argQ b] = .v (rawBin N .eq a b) ∧
    run N env system_PartialOrd_for_Quantity_lt_noauto [argQ a, argQ b] = .v (rawBin N .lt a b) ∧
    run N env system_PartialOrd_for_Quantity_le_noauto [argQ a, argQ b] = .v (rawBin N .le a b) ∧
    run N env system_PartialOrd_for_Quantity_gt_noauto [argQ a, argQ b] = .v (rawBin N .gt a b) ∧
    run N env system_PartialOrd_for_Quantity_ge_noauto [argQ a, argQ b] = .v (rawBin N .ge a b) ∧
    run N env system_PartialOrd_for_Quantity_partial_cmp_noauto [argQ a, argQ b] = .v (rawBin N .pcmp a b) :=
  ⟨rfl, rfl, rfl, rfl, rfl, rfl, rfl, rfl, rfl, rfl, rfl, rfl, rfl, rfl⟩

/-- autoconvert **on**, operands sharing base units (`Ul = Ur`, base factor `l`), wherever same-base
    `change_base` is the identity at the operand (`changeBase_same_*` above): again the bare operation -/
theorem src_on_same_base_is_raw (N : NumTy) (env : Env N) (a b : N.S.V)
    (hD : env.bf .Ur .D = env.bf .Ul .D) (hDr : env.bf .Ur .Dr = env.bf .Ul .Dr)
    (hid : changeBase N.S (env.bf .Ul .D) (env.bf .Ul .D) b = b)
    (hidr : changeBase N.S (env.bf .Ul .Dr) (env.bf .Ul .Dr) b = b) :
    run N env system_Add_Quantity_for_Quantity_add_auto [argQ a, argQ b] = .q (rawBin N .add a b) ∧
    run N env system_Sub_Quantity_for_Quantity_sub_auto [argQ a, argQ b] = .q (rawBin N .sub a b) ∧
    run N env system_Rem_Quantity_for_Quantity_rem_auto [argQ a, argQ b] = .q (rawBin N .rem a b) ∧
    run N env system_Mul_Quantity_for_Quantity_mul_auto [argQ a, argQ b] = .q (rawBin N .mul a b) ∧
    run N env system_Div_Quantity_for_Quantity_div_auto [argQ a, argQ b] = .q (rawBin N .div a b) ∧
    run N env system_AddAssign_Quantity_for_Quantity_add_assign_auto [argQ a, argQ b] = .v (rawBin N .add a b) ∧
    run N env system_SubAssign_Quantity_for_Quantity_sub_assign_auto [argQ a, argQ b] = .v (rawBin N .sub a b) ∧
    run N env system_RemAssign_Quantity_for_Quantity_rem_assign_auto [argQ a, argQ b] = .v (rawBin N .rem a b) ∧
    run N env system_PartialEq_Quantity_for_Quantity_eq_auto [argQ a, argQ b] = .v (rawBin N .eq a b) ∧
    run N env system_PartialOrd_Quantity_for_Quantity_lt_auto [argQ a, argQ b] = .v (rawBin N .lt a b) ∧
    run N env system_PartialOrd_Quantity_for_Quantity_partial_cmp_auto [argQ a, argQ b] = .v (rawBin N .pcmp a b) := by
  refine ⟨?_, ?_, ?_, ?_, ?_, ?_, ?_, ?_, ?_, ?_, ?_⟩
  · rw [BodyEq.add_auto_eq, hD, op_is_raw N .add _ a b hid]; rfl
  · rw [BodyEq.sub_auto_eq, hD, op_is_raw N .sub _ a b hid]; rfl
  · rw [BodyEq.rem_auto_eq, hD, op_is_raw N .rem _ a b hid]; rfl
  · rw [BodyEq.mul_auto_eq, hDr, op_is_raw N .mul _ a b hidr]; rfl
  · rw [BodyEq.div_auto_eq, hDr, op_is_raw N .div _ a b hidr]; rfl
  · rw [BodyEq.add_assign_auto_eq, hD, op_is_raw N .adda _ a b hid]; rfl
  · rw [BodyEq.sub_assign_auto_eq, hD, op_is_raw N .suba _ a b hid]; rfl
  · rw [BodyEq.rem_assign_auto_eq, hD, op_is_raw N .rema _ a b hid]; rfl
  · rw [BodyEq.eq_auto_eq, hD, op_is_raw N .eq _ a b hid]; rfl
  · rw [BodyEq.lt_auto_eq, hD, op_is_raw N .lt _ a b hid]; rfl
  · rw [BodyEq.partial_cmp_auto_eq, hD, op_is_raw N .pcmp _ a b hid]; rfl

/-- scalars and negation never convert -/
theorem src_scalar_is_raw (N : NumTy) (env : Env N) (a k : N.S.V) :
    run N env system_Mul_V_for_Quantity_mul [argQ a, argV k] = .q (rawBin N .mul a k) ∧
    run N env system_Div_V_for_Quantity_div [argQ a, argV k] = .q (rawBin N .div a k) ∧
    run N env system_MulAssign_V_for_Quantity_mul_assign [argQ a, argV k] = .v (rawBin N .mul a k) ∧
    run N env system_DivAssign_V_for_Quantity_div_assign [argQ a, argV k] = .v (rawBin N .div a k) ∧
    run N env system_Mul_Quantity_for_V_mul [argV k, argQ a] = .q (rawBin N .mul k a) ∧
    run N env system_Div_Quantity_for_V_div [argV k, argQ a] = .q (rawBin N .div k a) :=
  ⟨rfl, rfl, rfl, rfl, rfl, rfl⟩

/-- the forwarded methods call the *same-named* method of the storage type on the stored value(s) -/
theorem src_forwarded (N : NumTy) (env : Env N) (a b : N.S.V) :
    run N env system_inherent_Quantity_abs [argQ a] = (env.fwd m_abs [argV a]).asQuantity ∧
    run N env system_inherent_Quantity_signum [argQ a] = (env.fwd m_signum [argV a]).asQuantity ∧
    run N env system_inherent_Quantity_recip [argQ a] = (env.fwd m_recip [argV a]).asQuantity ∧
    run N env system_inherent_Quantity_sqrt [argQ a] = (env.fwd m_sqrt [argV a]).asQuantity ∧
    run N env system_inherent_Quantity_cbrt [argQ a] = (env.fwd m_cbrt [argV a]).asQuantity ∧
    run N env system_inherent_Quantity_max [argQ a, argQ b] = (env.fwd m_max [argV a, argV b]).asQuantity ∧
    run N env system_inherent_Quantity_min [argQ a, argQ b] = (env.fwd m_min [argV a, argV b]).asQuantity ∧
    run N env system_Ord_for_Quantity_max [argQ a, argQ b] = (env.fwd m_max [argV a, argV b]).asQuantity ∧
    run N env system_Ord_for_Quantity_min [argQ a, argQ b] = (env.fwd m_min [argV a, argV b]).asQuantity ∧
    run N env system_Ord_for_Quantity_cmp [argQ a, argQ b] = env.fwd m_cmp [argV a, argV b] ∧
    run N env system_Saturating_for_Quantity_saturating_add [argQ a, argQ b] = (env.fwd m_saturating_add [argV a, argV b]).asQuantity ∧
    run N env system_Saturating_for_Quantity_saturating_sub [argQ a, argQ b] = (env.fwd m_saturating_sub [argV a, argV b]).asQuantity ∧
    run N env system_inherent_Quantity_hypot_noauto [argQ a, argQ b] = (env.fwd m_hypot [argV a, argV b]).asQuantity ∧
    run N env system_inherent_Quantity_classify [argQ a] = env.fwd m_classify [argV a] ∧
    run N env system_inherent_Quantity_is_nan [argQ a] = env.fwd m_is_nan [argV a] ∧
    run N env system_inherent_Quantity_is_infinite [argQ a] = env.fwd m_is_infinite [argV a] ∧
    run N env system_inherent_Quantity_is_finite [argQ a] = env.fwd m_is_finite [argV a] ∧
    run N env system_inherent_Quantity_is_normal [argQ a] = env.fwd m_is_normal [argV a] ∧
    run N env system_inherent_Quantity_is_sign_positive [argQ a] = env.fwd m_is_sign_positive [argV a] ∧
    run N env system_inherent_Quantity_is_sign_negative [argQ a] = env.fwd m_is_sign_negative [argV a] ∧
    run N env system_Zero_for_Quantity_is_zero [argQ a] = env.fwd m_is_zero [argV a] ∧
    run N env system_Neg_for_Quantity_neg [argQ a] = .q ((N.neg a).bind fun v => .ok (.val v)) :=
  ⟨rfl, rfl, rfl, rfl, rfl, rfl, rfl, rfl, rfl, rfl, rfl, rfl, rfl, rfl, rfl, rfl, rfl, rfl, rfl, rfl, rfl, rfl⟩

end SourceTie

/-! ### closed world: no method of the crate's own traits can be picked instead of a forwarded storage-type method

The forwarding theorems above say "`abs` calls the method `abs` on the stored value" — *which* `abs` is method
resolution.  The crate's traits `Conversion<V>`, `ConversionFactor<V>` … are where-clause bounds of every quantity
impl, hence in scope; a by-value method of the same name declared there would win over `Signed::abs(&self)`.
`Gen.Sig.traitFnCodes` pairs every method declared by a trait of the crate with the code of a forwarded method of
the same name; the only coincidence is `ConversionFactor::powi` (a method of the *factor* type, which is not a
bound on the stored type in the generic quantity impls). -/
section MethodResolution
open Uom.Gen.Sig Uom.Gen.Body

theorem src_no_method_hijack : traitFnCodes = [(trait_ConversionFactor, m_powi)] := by decide
/-- non-vacuity: the scan saw the trait declarations -/
example : 0 < traitFnCount := by decide

end MethodResolution

end Uom.C07
