import Uom.Model.Text
import Uom.Proofs.BodyEq.Text
import Uom.Proofs.BodyEq.FmtGlue
/-!
# C11 — formatting prints the value in the requested unit with the right label

`fmtArgs fmtV isOne u style x` is the transcription of `QuantityArguments::fmt` (src/system.rs):
`x` is the value converted to the unit by `from_base` (C03/C08), `fmtV` the storage type's own
formatting under the caller's format spec and flavour (a parameter: Display, Debug, LowerExp, UpperExp,
LowerHex, UpperHex, Octal, Binary only select it), `isOne = V::is_one`.  The theorems are thin — the
property *is* this definition; the assurance is the correspondence run, which compares the real
output with `format!(spec, x)` of the model-predicted `x` for every spec of the grid.
-/
namespace Uom.C11
open Uom

/-- output = the storage type's formatting of the converted value, one space, the label -/
theorem fmt_formula {V : Type} (fmtV : V → Bytes) (isOne : V → Bool) (u : Labels) (style : Style) (x : V) :
    fmtArgs fmtV isOne u style x = fmtV x ++ [0x20] ++ label u style (isOne x) := rfl

/-- abbreviation style: always the abbreviation, whatever the value -/
theorem abbreviation_label (u : Labels) (one : Bool) : label u .abbreviation one = u.abbr := rfl

/-- description style: the singular name if and only if the converted value equals one, else the plural -/
theorem singular_iff (u : Labels) (one : Bool) (hne : u.sing ≠ u.plur) :
    label u .description one = u.sing ↔ one = true := by
  cases one with
  | true => simp [label]
  | false => simp [label]; exact fun h => hne h.symm

theorem plural_otherwise (u : Labels) : label u .description false = u.plur := rfl

/-- the value printed is the value handed in — the *converted* value, not the stored one: with
    `x = from_base(stored)` the singular is chosen iff the converted value is one (1000 m in km) -/
theorem label_uses_converted_value {V : Type} (fmtV : V → Bytes) (isOne : V → Bool) (u : Labels) (x : V)
    (h : isOne x = true) : fmtArgs fmtV isOne u .description x = fmtV x ++ [0x20] ++ u.sing := by
  simp [fmtArgs, label, h]

/-- the flavour / width / precision / sign / fill / alternate flags reach the output only through `fmtV` -/
theorem flavour_only_selects_value_formatting {V : Type} (f g : V → Bytes) (isOne : V → Bool) (u : Labels)
    (style : Style) (x : V) (h : f x = g x) : fmtArgs f isOne u style x = fmtArgs g isOne u style x := by
  simp [fmtArgs, h]

/-- Debug of a bare quantity: nothing is appended for a dimensionless quantity … -/
theorem debug_dimensionless (v : Bytes) (abbrs : List Bytes) (n : Nat) :
    fmtDebug v abbrs (List.replicate n 0) = v := by
  unfold fmtDebug
  have : ((abbrs.zip (List.replicate n (0 : Int))).filter (fun p => p.2 ≠ 0)) = [] := by
    rw [List.filter_eq_nil_iff]
    intro p hp
    have := (List.of_mem_zip hp).2
    simp [List.mem_replicate] at this
    simp [this.2]
  rw [this]; simp

/-- … and exactly one ` <abbr>^<exp>` segment per non-zero exponent, in system order -/
theorem debug_segments (v : Bytes) (abbrs : List Bytes) (dim : List Int) :
    fmtDebug v abbrs dim =
      v ++ (((abbrs.zip dim).filter (fun p => p.2 ≠ 0)).map fun p => [0x20] ++ p.1 ++ [0x5e] ++ intBytes p.2).flatten := by
  unfold fmtDebug; rw [List.flatMap_def]

/-- non-vacuity: `1 m^1 s^-2` -/
example : fmtDebug [0x31] [[0x6d], [0x6b, 0x67], [0x73]] [1, 0, -2] =
    [0x31, 0x20, 0x6d, 0x5e, 0x31, 0x20, 0x73, 0x5e, 0x2d, 0x32] := by decide +kernel

/-! ### tie to the source: the `fmt` impls regenerated from /repo/src/system.rs on this run

`Gen.RxBody.system_style_for_QuantityArguments_fmt` (the body shared by the eight flavours of
`format_arguments!`) and `system_Debug_for_Quantity_fmt` are what the translator read from the Rust source
just now; `Rx.run` evaluates them (`?`, `write!`, the style `match`, the `.and_then` repetition over the base
quantities natively; the storage type's own formatting, `is_one`, `from_base` and the labels are parameters). -/
section SourceTieRx
open Uom.Rx Uom.Gen.RxBody Uom.BodyEq.Text

/-- the source writes exactly `fmtArgs`: the storage type's formatting of the *converted* value, one space,
    abbreviation / singular iff the converted value is one / plural -/
theorem src_quantity_arguments_fmt {V : Type} (fromB : V → V) (fmtV : V → Bytes) (isOne : V → Bool) (u : Labels)
    (style : Style) (x : V) :
    run (envFmt fromB (fun v => some (fmtV v)) isOne u) system_style_for_QuantityArguments_fmt
        [.host (.qa style x), .fmtr] =
      (.val (.ctor1 cOk .unit), fmtV (fromB x) ++ [0x20] ++ label u style (isOne (fromB x))) :=
  quantity_arguments_fmt_eq fromB fmtV isOne u style x

/-- a formatting error of the value is returned and nothing else is written -/
theorem src_quantity_arguments_fmt_err {V : Type} (fromB : V → V) (fmtV : V → Option Bytes) (isOne : V → Bool)
    (u : Labels) (style : Style) (x : V) (h : fmtV (fromB x) = none) :
    run (envFmt fromB fmtV isOne u) system_style_for_QuantityArguments_fmt [.host (.qa style x), .fmtr] =
      (.val (.ctor1 cErr .unit), []) := quantity_arguments_fmt_err fromB fmtV isOne u style x h

/-- the source's `Debug for Quantity` writes `fmtDebug`, for any number of base quantities -/
theorem src_debug_fmt {V : Type} (dbg : V → Bytes) (abbrs : List Bytes) (dim : List Int)
    (h : abbrs.length = dim.length) (x : V) :
    run (envDebug (fun v => some (dbg v)) abbrs dim) system_Debug_for_Quantity_fmt [.host (.quant x), .fmtr] =
      (.val (.ctor1 cOk .unit),
        dbg x ++ (((abbrs.zip dim).filter (fun p => p.2 ≠ 0)).map fun p => [0x20] ++ p.1 ++ [0x5e] ++ intBytes p.2).flatten) := by
  rw [debug_fmt_eq dbg abbrs dim h x, debug_segments]

/-- **both entry points of the source reach that `fmt` with the caller's style and the quantity itself**:
    `format!("{}", q.into_format_args(unit, style))` — the struct built by the regenerated `into_format_args`
    is the one whose `fmt` writes `fmtArgs` of the converted value, whatever the unit value and for both styles -/
theorem src_display_into_format_args {V : Type} (fromB : V → V) (fmtV : V → Bytes) (isOne : V → Bool) (u : Labels)
    (un : RV (FH V)) (style : Style) (x : V) :
    ∃ w, run (Uom.BodyEq.FmtGlue.envGlue fromB (fun v => some (fmtV v)) isOne u)
            quantity_inherent_quantity_into_format_args
            [.host (.quant x), un, Uom.BodyEq.FmtGlue.styleRV style] = (.val w, []) ∧
      run (Uom.BodyEq.FmtGlue.envGlue fromB (fun v => some (fmtV v)) isOne u)
          system_style_for_QuantityArguments_fmt [w, .fmtr] =
        (.val (.ctor1 cOk .unit), fmtV (fromB x) ++ [0x20] ++ label u style (isOne (fromB x))) :=
  Uom.BodyEq.FmtGlue.display_into_format_args fromB isOne u fmtV un style x

/-- … and `format!("{}", Q::format_args(unit, style).with(q))` writes the same bytes -/
theorem src_display_format_args_with {V : Type} (fromB : V → V) (fmtV : V → Bytes) (isOne : V → Bool) (u : Labels)
    (un : RV (FH V)) (style : Style) (x : V) :
    ∃ a w, run (Uom.BodyEq.FmtGlue.envGlue fromB (fun v => some (fmtV v)) isOne u)
            quantity_inherent_quantity_format_args [un, Uom.BodyEq.FmtGlue.styleRV style] = (.val a, []) ∧
      run (Uom.BodyEq.FmtGlue.envGlue fromB (fun v => some (fmtV v)) isOne u) quantity_inherent_Arguments_with
            [a, .host (.quant x)] = (.val w, []) ∧
      run (Uom.BodyEq.FmtGlue.envGlue fromB (fun v => some (fmtV v)) isOne u)
          system_style_for_QuantityArguments_fmt [w, .fmtr] =
        (.val (.ctor1 cOk .unit), fmtV (fromB x) ++ [0x20] ++ label u style (isOne (fromB x))) :=
  Uom.BodyEq.FmtGlue.display_format_args_with fromB isOne u fmtV un style x

/-- "the return value of `format_args` can be reused to format several quantities": `Clone for Arguments` returns
    the same arguments (style included) -/
theorem src_arguments_clone (style : Style) :
    run (Uom.BodyEq.FmtGlue.envGlue (V := Unit) id (fun _ => none) (fun _ => false) ⟨[], [], []⟩)
        system_Clone_for_Arguments_clone [.host (.args style)] = (.val (.host (.args style)), []) :=
  Uom.BodyEq.FmtGlue.arguments_clone_eq style

end SourceTieRx

end Uom.C11
