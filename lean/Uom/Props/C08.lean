import Uom.Proofs.Exact
import Uom.Proofs.OpsExact
import Uom.Proofs.BodyEq.Conv
import Uom.Proofs.BodyEq.Storage
import Uom.Proofs.BodyEq.Powi
import Uom.Proofs.BodyEq.UnitMac
/-!
# C08 — exact storage converts exactly; integer storage truncates toward zero

`ratS` models BigRational (and fixed-width rationals while nothing overflows), `intS` models BigInt /
BigUint / primitive integers (factor type `Ratio<V>`, `value() = to_integer()` = truncation toward zero).
The coefficient, constant and base factor are whatever the storage type *publishes*
(`Conversion::coefficient()` …), so the theorems hold for every unit, every base-unit set and every
number of base quantities.  Guards (`coef ≠ 0`, `f ≠ 0`) are exactly the inputs on which the real code
divides by a zero ratio and panics; the correspondence run covers that error branch explicitly.
-/
namespace Uom.C08
open Uom

/-- construction, rational storage: both branches of `to_base` are the conversion formula -/
theorem new_exact (coef c f v : Rat) : toBase ratS coef c f v = (v + c) * coef / f := toBase_rat coef c f v

/-- read-back, rational storage -/
theorem get_exact (coef c f v : Rat) : fromBase ratS coef c f v = v * f / coef - c := fromBase_rat coef c f v

/-- construct-then-read in one unit is the identity -/
theorem roundtrip (coef c f v : Rat) (hc : coef ≠ 0) (hf : f ≠ 0) :
    fromBase ratS coef c f (toBase ratS coef c f v) = v := roundtrip_rat coef c f v hc hf

/-- read-then-construct too -/
theorem roundtrip_inv (coef c f s : Rat) (hc : coef ≠ 0) (hf : f ≠ 0) :
    toBase ratS coef c f (fromBase ratS coef c f s) = s := roundtrip_rat' coef c f s hc hf

/-- read-back in two (offset-free) units differs exactly by the ratio of their coefficients -/
theorem two_units (c1 c2 f v : Rat) (h1 : c1 ≠ 0) (h2 : c2 ≠ 0) :
    fromBase ratS c1 0 f v * c1 = fromBase ratS c2 0 f v * c2 := by
  rw [fromBase_rat, fromBase_rat]; field_simp; ring

/-- integer storage: the stored value is the exact rational result truncated toward zero -/
theorem new_int (coef c f : Rat) (v : Int) :
    toBase intS coef c f v = ratTrunc (((v : Rat) + c) * coef / f) := by
  unfold toBase
  simp only [intS]
  split
  · congr 1; ring
  · rfl

theorem get_int (coef c f : Rat) (v : Int) :
    fromBase intS coef c f v = ratTrunc ((v : Rat) * f / coef - c) := by
  unfold fromBase
  simp only [intS]
  split
  · congr 1; ring
  · congr 1
    by_cases hc : coef = 0
    · subst hc; simp
    · by_cases hf : f = 0
      · subst hf; simp
      · field_simp

/-- truncation is toward zero: `|trunc r| ≤ |r|`, same sign, less than one away -/
theorem trunc_toward_zero (r : Rat) :
    ((ratTrunc r : Int) : Rat) * ((ratTrunc r : Int) : Rat) ≤ r * ((ratTrunc r : Int) : Rat) ∨ ratTrunc r = 0 := by
  by_cases h : ratTrunc r = 0
  · right; exact h
  · left
    -- `Int.tdiv n d` has the sign of `n` and magnitude `⌊|n|/d⌋`
    have hden : (0 : Rat) < (r.den : Rat) := by exact_mod_cast r.den_pos
    have hr : r = (r.num : Rat) / (r.den : Rat) := (Rat.num_div_den r).symm
    set t := Int.tdiv r.num (r.den : Int) with ht
    have key : (t : Int) * t * r.den ≤ r.num * t := by
      have hd : (0 : Int) < r.den := by exact_mod_cast r.den_pos
      rcases le_total 0 r.num with hn | hn
      · have h1 : t * r.den ≤ r.num := by
          rw [ht, Int.tdiv_eq_ediv_of_nonneg hn]; exact Int.ediv_mul_le _ (ne_of_gt hd)
        have h0 : 0 ≤ t := by rw [ht]; exact Int.tdiv_nonneg hn hd.le
        nlinarith
      · have hneg : Int.tdiv r.num r.den = -Int.tdiv (-r.num) r.den := by
          rw [Int.neg_tdiv, neg_neg]
        have hn' : 0 ≤ -r.num := by omega
        have h1 : Int.tdiv (-r.num) r.den * r.den ≤ -r.num := by
          rw [Int.tdiv_eq_ediv_of_nonneg hn']; exact Int.ediv_mul_le _ (ne_of_gt hd)
        have h0 : 0 ≤ Int.tdiv (-r.num) r.den := Int.tdiv_nonneg hn' hd.le
        rw [ht, hneg]; nlinarith
    have : ((t * t * r.den : Int) : Rat) ≤ ((r.num * t : Int) : Rat) := by exact_mod_cast key
    push_cast at this
    show ((ratTrunc r : Int) : Rat) * ((ratTrunc r : Int) : Rat) ≤ r * ((ratTrunc r : Int) : Rat)
    unfold ratTrunc
    rw [← ht]
    conv_rhs => rw [hr]
    rw [div_mul_eq_mul_div, le_div_iff₀ hden]
    linarith

/-- the big types' `powi` (`recip` + `pow` for negative exponents) is the integer power -/
theorem powi_big (c : Rat) (n : Nat) : ratPowi c (-(n : Int)) = (c⁻¹) ^ n := by
  unfold ratPowi; rw [zpow_neg, zpow_natCast, inv_pow]

/-- non-vacuity: 5 ft in metres with the published coefficient 381/1250, read back, exactly -/
example : fromBase ratS (381 / 1250) 0 1 (toBase ratS (381 / 1250) 0 1 5) = 5 :=
  roundtrip _ _ _ _ (by norm_num) one_ne_zero

/-- non-vacuity (integers): −7 half-units truncate toward zero to −3 -/
example : toBase intS (1 / 2) 0 1 (-7) = -3 := by
  rw [new_int]; decide +kernel

/-! ### tie to the source: the function bodies regenerated from /repo/src on this run

`Gen.Body.*` below is what the translator read from the Rust source just now; `Body.run` evaluates it
over any storage type.  These theorems state the property's code path *for the regenerated bodies*:
they fail to check as soon as the source computes something else. -/
section SourceTie
open Uom.Body Uom.Gen.Body

/-- construction and reading are `toBase` / `fromBase` for exact and integer storage too -/
theorem src_new (N : NumTy) (env : Env N) (v : N.S.V) :
    run N env quantity_inherent_quantity_new [argV v]
      = argQ (toBase N.S env.nCoef env.nConsA (env.bf .U .Dimension) v) := BodyEq.new_eq N env v
theorem src_get (N : NumTy) (env : Env N) (a : N.S.V) :
    run N env quantity_inherent_quantity_get [argQ a]
      = argV (fromBase N.S env.nCoef env.nConsS (env.bf .U .Dimension) a) := BodyEq.get_eq N env a

/-- the `conv` / `value` fields of the storage algebras are what src/lib.rs implements: rationals are
    their own factor type (identity both ways); integers become ratios via `into()` and come back via
    `Ratio::to_integer()` — truncation toward zero, `intS.value = ratTrunc` -/
theorem src_storage (N : NumTy) (env : Env N) (x : Val N) :
    run N env lib_Conversion_V_for_V_conversion_Rational_Rational32_Rational64 [x] = x ∧
    run N env lib_ConversionFactor_V_for_V_value_Rational_Rational32_Rational64 [x] = x ∧
    run N env lib_Conversion_V_for_V_conversion_BigRational [x] = env.fwd m_clone [x] ∧
    run N env lib_ConversionFactor_V_for_V_value_BigRational [x] = x ∧
    run N env lib_Conversion_V_for_V_conversion_PrimInt [x] = env.fwd m_into [x] ∧
    run N env lib_ConversionFactor_V_for_Ratio_value_PrimInt [x] = env.fwd m_to_integer [x] ∧
    run N env lib_Conversion_V_for_V_conversion_BigInt_BigUint [x] = env.fwd m_into [env.fwd m_clone [x]] ∧
    run N env lib_ConversionFactor_V_for_Ratio_value_BigInt_BigUint [x] = env.fwd m_to_integer [x] :=
  ⟨rfl, rfl, rfl, rfl, rfl, rfl, rfl, rfl⟩

end SourceTie

/-! ### tie to the source: the exact-storage `ConversionFactor::powi` impls regenerated from /repo/src/lib.rs -/
section SourceTieRx
open Uom.Rx Uom.Gen.RxBody Uom.BodyEq.Powi

/-- BigInt / BigUint (`Ratio<V>` factors): one for exponent 0, `pow(recip, −e)` below, `pow(self, e)` above -/
theorem src_powi_bigint {α : Type} (one : α) (recip : α → α) (pow : α → Nat → α) (c : α) (e : Int) :
    run (envPowi one recip pow) lib_ConversionFactor_V_for_Ratio_powi_BigInt_BigUint [.host c, .int e] =
      (.val (.host (if e = 0 then one else if e < 0 then pow (recip c) (-e).toNat else pow c e.toNat)), []) :=
  powi_bigint_eq one recip pow c e

theorem src_powi_bigrational {α : Type} (one : α) (recip : α → α) (pow : α → Nat → α) (c : α) (e : Int) :
    run (envPowi one recip pow) lib_ConversionFactor_V_for_V_powi_BigRational [.host c, .int e] =
      (.val (.host (if e = 0 then one else if e < 0 then pow (recip c) (-e).toNat else pow c e.toNat)), []) :=
  powi_bigrational_eq one recip pow c e

/-- the fixed-width integers (`Ratio<V>` factors), the fixed-width rationals and complex forward to the storage
    library's own integer power (`Ratio::pow`, `Complex::powi`) with the same base and exponent -/
theorem src_powi_forwards {α : Type} (pw : α → Int → α) (c : α) (e : Int) :
    run ({ envPowi c id (fun x _ => x) with
            meth := fun m args => if m = m_pow then (match args with
              | [.host x, .int k] => .host (pw x k)
              | _ => .bad) else .bad } : Env α)
        lib_ConversionFactor_V_for_Ratio_powi_PrimInt [.host c, .int e] = (.val (.host (pw c e)), []) ∧
    run ({ envPowi c id (fun x _ => x) with
            meth := fun m args => if m = m_pow then (match args with
              | [.host x, .int k] => .host (pw x k)
              | _ => .bad) else .bad } : Env α)
        lib_ConversionFactor_V_for_V_powi_Rational_Rational32_Rational64 [.host c, .int e] =
      (.val (.host (pw c e)), []) ∧
    run ({ envPowi c id (fun x _ => x) with
            meth := fun m args => if m = m_powi then (match args with
              | [.host x, .int k] => .host (pw x k)
              | _ => .bad) else .bad } : Env α)
        lib_ConversionFactor_V_for_VV_powi_Complex [.host c, .int e] = (.val (.host (pw c e)), []) :=
  ⟨powi_primint_eq pw c e, powi_rational_eq pw c e, powi_complex_eq pw c e⟩

/-- over ℚ, with `pow` the natural power and `recip` the inverse, that dispatch is the integer power `c ^ e` -/
theorem src_powi_rat_is_zpow (c : Rat) (e : Int) :
    (if e = 0 then (1 : Rat) else if e < 0 then (c⁻¹) ^ (-e).toNat else c ^ e.toNat) = ratPowi c e := by
  unfold ratPowi
  rcases Int.lt_trichotomy e 0 with h | h | h
  · have h0 : e ≠ 0 := by omega
    simp only [h0, h, if_true, if_false]
    obtain ⟨n, rfl⟩ : ∃ n : Nat, e = -(n : Int) := ⟨(-e).toNat, by omega⟩
    simp [zpow_neg, inv_pow]
  · subst h; simp
  · have h0 : e ≠ 0 := by omega
    have h1 : ¬ e < 0 := by omega
    simp only [h0, h1, if_false]
    obtain ⟨n, rfl⟩ : ∃ n : Nat, e = (n : Int) := ⟨e.toNat, by omega⟩
    simp

end SourceTieRx

/-! ### tie to the source: what a unit publishes for exact storage (`unit!`, /repo/src/unit.rs, this run) -/
section SourceTieUnit
open Uom.Rx Uom.Gen.RxBody Uom.BodyEq.UnitMac

variable {F T R B : Type} (zero : F) (negF : F → F) (d : Decl F) (L : Lib F T R B)

/-- the helpers: integers / BigInt and the rational types use the library's `FromPrimitive::from_f64`;
    BigUint goes through the *unbounded* `Ratio<BigInt>::from_f64`; each panics exactly where that fails -/
theorem src_from_f64_primint_bigint (x : F) :
    run (envUnit zero negF d L) unit_free_from_f64_PrimInt_BigInt [.host (.f x)] = (embedOptT (L.fromPrim x), []) :=
  from_f64_primint_bigint zero negF d L x
theorem src_from_f64_ratio (x : F) :
    run (envUnit zero negF d L) unit_free_from_f64_Ratio [.host (.f x)] = (embedOptT (L.fromPrim x), []) :=
  from_f64_ratio zero negF d L x
theorem src_from_f64_biguint (x : F) :
    run (envUnit zero negF d L) unit_free_from_f64_BigUint [.host (.f x)] = (embedOptT (bigUintSpec L x), []) :=
  from_f64_biguint zero negF d L x

/-- the published coefficient / constant of every rational-factor storage class is that helper applied to
    the *declared* factor / constant (or signed zero) -/
theorem src_unit_coefficient_exact (conv : F → Option T) :
    run (envUnitF zero negF d L conv) unit_Conversion_V_for_unit_coefficient_PrimInt_BigInt [] = (embedOptT (conv d.factor), []) ∧
    run (envUnitF zero negF d L conv) unit_Conversion_V_for_unit_coefficient_BigUint [] = (embedOptT (conv d.factor), []) ∧
    run (envUnitF zero negF d L conv) unit_Conversion_V_for_unit_coefficient_Ratio [] = (embedOptT (conv d.factor), []) :=
  ⟨coefficient_primint_bigint zero negF d L conv, coefficient_biguint zero negF d L conv, coefficient_ratio zero negF d L conv⟩

theorem src_unit_constant_exact (conv : F → Option T) (add : Bool) :
    run (envUnitF zero negF d L conv) unit_Conversion_V_for_unit_constant_PrimInt_BigInt [.ctor0 (opCode add)] =
      (embedOptT (conv (declConst zero negF d add)), []) ∧
    run (envUnitF zero negF d L conv) unit_Conversion_V_for_unit_constant_BigUint [.ctor0 (opCode add)] =
      (embedOptT (conv (declConst zero negF d add)), []) ∧
    run (envUnitF zero negF d L conv) unit_Conversion_V_for_unit_constant_Ratio [.ctor0 (opCode add)] =
      (embedOptT (conv (declConst zero negF d add)), []) :=
  ⟨constant_primint_bigint zero negF d L conv add, constant_biguint zero negF d L conv add, constant_ratio zero negF d L conv add⟩

end SourceTieUnit

end Uom.C08
