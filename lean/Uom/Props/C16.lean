import Uom.Proofs.Exact
import Mathlib.Algebra.Order.Floor.Ring
import Mathlib.Data.Rat.Floor
import Uom.Proofs.BodyEq.Round
import Uom.Proofs.FloatOps
import Uom.Proofs.OracleSound
import Uom.Proofs.MoreOracleSound
/-!
# C16 — rounding to a unit rounds the value as expressed in that unit

`roundInUnit S op coef cA cS f v` is the transcription of `floor/ceil/round/trunc/fract::<N>` of
src/quantity.rs: `Self::new::<N>(self.get::<N>().op())`.  The float instances are tied to the code
bit-for-bit by the correspondence run; the theorems below are the exact-arithmetic specification
(what the float results approximate within the C03 bounds) and hold for every unit (any
coefficient, any offset), every base-unit set (any base factor `f`) and every value.
-/
namespace Uom.C16
open Uom

/-- the code path, for every storage type: convert out, apply the storage type's function, convert in -/
theorem round_in_unit_formula (S : Storage) (op : S.V → S.V) (coef cA cS f : S.T) (v : S.V) :
    roundInUnit S op coef cA cS f v = toBase S coef cA f (op (fromBase S coef cS f v)) := rfl

/-- exact storage: the result read back in the unit is *exactly* `op` of the original read in the unit
    (so it is an integer for floor/ceil/round/trunc), for every unit and base-unit set -/
theorem read_back_exact (op : Rat → Rat) (coef c f v : Rat) (hc : coef ≠ 0) (hf : f ≠ 0) :
    fromBase ratS coef c f (roundInUnit ratS op coef c c f v) = op (fromBase ratS coef c f v) := by
  unfold roundInUnit
  exact roundtrip_rat coef c f _ hc hf

/-- `floor` in a unit yields an integer number of units that brackets the original from below -/
theorem floor_brackets (coef c f v : Rat) (hc : coef ≠ 0) (hf : f ≠ 0) :
    let g := fromBase ratS coef c f v
    let r := fromBase ratS coef c f (roundInUnit ratS (fun x => (⌊x⌋ : Rat)) coef c c f v)
    r = (⌊g⌋ : Rat) ∧ r ≤ g ∧ g < r + 1 := by
  intro g r
  have h : r = (⌊g⌋ : Rat) := read_back_exact _ coef c f v hc hf
  refine ⟨h, ?_, ?_⟩
  · rw [h]; exact Int.floor_le g
  · rw [h]; exact Int.lt_floor_add_one g

/-- `ceil` in a unit brackets from above -/
theorem ceil_brackets (coef c f v : Rat) (hc : coef ≠ 0) (hf : f ≠ 0) :
    let g := fromBase ratS coef c f v
    let r := fromBase ratS coef c f (roundInUnit ratS (fun x => (⌈x⌉ : Rat)) coef c c f v)
    r = (⌈g⌉ : Rat) ∧ g ≤ r ∧ r < g + 1 := by
  intro g r
  have h : r = (⌈g⌉ : Rat) := read_back_exact _ coef c f v hc hf
  refine ⟨h, ?_, ?_⟩
  · rw [h]; exact Int.le_ceil g
  · rw [h]; exact Int.ceil_lt_add_one g

/-- `trunc + fract` restores the original (units without offset: two offsets cannot be added, C09) -/
theorem trunc_add_fract (tr : Rat → Rat) (coef f v : Rat) (hc : coef ≠ 0) (hf : f ≠ 0) :
    roundInUnit ratS tr coef 0 0 f v + roundInUnit ratS (fun x => x - tr x) coef 0 0 f v = v := by
  unfold roundInUnit
  simp only [toBase_rat, fromBase_rat]
  field_simp
  ring

/-- the result does not depend on the base units in use: the *physical* value (stored value times the
    base factor) of the rounded quantity is the same function of the physical value of the original -/
theorem base_independent (op : Rat → Rat) (coef c f f' v : Rat) (hf : f ≠ 0) (hf' : f' ≠ 0) :
    roundInUnit ratS op coef c c f v * f = roundInUnit ratS op coef c c f' (v * f / f') * f' := by
  unfold roundInUnit
  simp only [toBase_rat, fromBase_rat]
  have : v * f / f' * f' / coef = v * f / coef := by field_simp
  rw [this]
  field_simp

/-- non-vacuity: 3.7 ft with the metre as base unit floors to 3 ft = 0.9144 m -/
example : roundInUnit ratS (fun x => (⌊x⌋ : Rat)) (3048 / 10000) 0 0 1 (3.7 * 3048 / 10000) = 9144 / 10000 := by
  unfold roundInUnit
  simp only [toBase_rat, fromBase_rat]
  norm_num

/-! ### floats: proved bounds — the stored result is the construction (within `4u`) of the *mathematical*
rounding of the value the implementation reads in the unit (the oracle `oracleStdRounding`, as a theorem) -/

/-- the soft-float `floor`/`ceil`/`round`/`trunc` are the mathematical functions, exactly -/
theorem float_floor_exact (f : Fmt) (hf : f.WF) (x : Fl) (hc : Fl.Canonical f x) (hx : x.isFinite = true) :
    (Fl.floor f x).toRat = ((x.toRat.floor : Int) : Rat) := (Proofs.floor_toRat hf hc hx).1
theorem float_round_exact (f : Fmt) (hf : f.WF) (x : Fl) (hc : Fl.Canonical f x) (hx : x.isFinite = true) :
    (Fl.round f x).toRat = ((Proofs.ratRoundQ x.toRat : Int) : Rat) := (Proofs.round_toRat hf hc hx).1

theorem floor_float (f : Fmt) (hf : f.WF) (h4 : 4 ≤ f.p) (coef cA cS fac v : Fl)
    (hg : Fl.isFinite (fromBase (flS f) coef cS fac v) = true)
    (H : Proofs.ToBaseOk f coef cA fac (Fl.floor f (fromBase (flS f) coef cS fac v))) :
    |Fl.toRat (roundInUnit (flS f) (Fl.floor f) coef cA cS fac v) -
        (((Fl.toRat (fromBase (flS f) coef cS fac v)).floor : Int) + cA.toRat) * coef.toRat / fac.toRat| ≤
      4 * Proofs.uro f *
        |(((Fl.toRat (fromBase (flS f) coef cS fac v)).floor : Int) + cA.toRat) * coef.toRat / fac.toRat| :=
  Proofs.floor_in_unit_abs_le hf h4 hg H

theorem ceil_float (f : Fmt) (hf : f.WF) (h4 : 4 ≤ f.p) (coef cA cS fac v : Fl)
    (hg : Fl.isFinite (fromBase (flS f) coef cS fac v) = true)
    (H : Proofs.ToBaseOk f coef cA fac (Fl.ceil f (fromBase (flS f) coef cS fac v))) :
    |Fl.toRat (roundInUnit (flS f) (Fl.ceil f) coef cA cS fac v) -
        (((-((-(Fl.toRat (fromBase (flS f) coef cS fac v))).floor) : Int) : Rat) + cA.toRat)
          * coef.toRat / fac.toRat| ≤
      4 * Proofs.uro f *
        |(((-((-(Fl.toRat (fromBase (flS f) coef cS fac v))).floor) : Int) : Rat) + cA.toRat)
          * coef.toRat / fac.toRat| :=
  Proofs.ceil_in_unit_abs_le hf h4 hg H

theorem round_float (f : Fmt) (hf : f.WF) (h4 : 4 ≤ f.p) (coef cA cS fac v : Fl)
    (hg : Fl.isFinite (fromBase (flS f) coef cS fac v) = true)
    (H : Proofs.ToBaseOk f coef cA fac (Fl.round f (fromBase (flS f) coef cS fac v))) :
    |Fl.toRat (roundInUnit (flS f) (Fl.round f) coef cA cS fac v) -
        (((Proofs.ratRoundQ (Fl.toRat (fromBase (flS f) coef cS fac v)) : Int) : Rat) + cA.toRat)
          * coef.toRat / fac.toRat| ≤
      4 * Proofs.uro f *
        |(((Proofs.ratRoundQ (Fl.toRat (fromBase (flS f) coef cS fac v)) : Int) : Rat) + cA.toRat)
          * coef.toRat / fac.toRat| :=
  Proofs.round_in_unit_abs_le hf h4 hg H

theorem trunc_float (f : Fmt) (hf : f.WF) (h4 : 4 ≤ f.p) (coef cA cS fac v : Fl)
    (hg : Fl.isFinite (fromBase (flS f) coef cS fac v) = true)
    (H : Proofs.ToBaseOk f coef cA fac (Fl.trunc f (fromBase (flS f) coef cS fac v))) :
    |Fl.toRat (roundInUnit (flS f) (Fl.trunc f) coef cA cS fac v) -
        (((Proofs.ratTruncQ (Fl.toRat (fromBase (flS f) coef cS fac v)) : Int) : Rat) + cA.toRat)
          * coef.toRat / fac.toRat| ≤
      4 * Proofs.uro f *
        |(((Proofs.ratTruncQ (Fl.toRat (fromBase (flS f) coef cS fac v)) : Int) : Rat) + cA.toRat)
          * coef.toRat / fac.toRat| :=
  Proofs.trunc_in_unit_abs_le hf h4 hg H

/-! ### the executable oracle accepts the model, for every input

`oracleStdRounding` is what the driver evaluates on the implementation's observed `floor` / `ceil` /
`round` / `trunc` results.  For every case and every canonical value `g` read in the unit, the model's
result `new(op(g))` is never rejected. -/
theorem oracle_accepts_rounding (c : ConvCase) (hf : c.fmt.WF) (h4 : 4 ≤ c.fmt.p)
    (hcA : Fl.Canonical c.fmt c.consA) (g : Fl) (hg : Fl.Canonical c.fmt g) (why : String) :
    oracleStdRounding c 0 g
        (toBase (flS c.fmt) c.coef c.consA (baseFactor (flS c.fmt) c.pows) (Fl.floor c.fmt g)) ≠ .fail why ∧
    oracleStdRounding c 1 g
        (toBase (flS c.fmt) c.coef c.consA (baseFactor (flS c.fmt) c.pows) (Fl.ceil c.fmt g)) ≠ .fail why ∧
    oracleStdRounding c 2 g
        (toBase (flS c.fmt) c.coef c.consA (baseFactor (flS c.fmt) c.pows) (Fl.round c.fmt g)) ≠ .fail why ∧
    oracleStdRounding c 3 g
        (toBase (flS c.fmt) c.coef c.consA (baseFactor (flS c.fmt) c.pows) (Fl.trunc c.fmt g)) ≠ .fail why :=
  Proofs.oracleStdRounding_sound c hf h4 hcA g hg why

/-- the first rounding oracle (`floor.oracle` … `trunc.oracle`: the result read back in the unit is the
    mathematical rounding of the exact value, within 8u) accepts the model's `roundInUnit` for every stored
    value — given that the unit's two constants denote the same number (they differ only in the sign of
    zero for real units: `UnitMac.declConst`; `oracle_rounding_needs_equal_constants` shows the hypothesis
    cannot be dropped) -/
theorem oracle_accepts_rounding_in_unit (c : ConvCase) (hf : c.fmt.WF) (h4 : 4 ≤ c.fmt.p)
    (hcA : Fl.Canonical c.fmt c.consA) (hcS : Fl.Canonical c.fmt c.consS)
    (hcc : c.consA.toRat = c.consS.toRat) (why : String) :
    oracleRounding c 0 (roundInUnit (flS c.fmt) (Fl.floor c.fmt) c.coef c.consA c.consS
      (baseFactor (flS c.fmt) c.pows) c.v) ≠ .fail why ∧
    oracleRounding c 1 (roundInUnit (flS c.fmt) (Fl.ceil c.fmt) c.coef c.consA c.consS
      (baseFactor (flS c.fmt) c.pows) c.v) ≠ .fail why ∧
    oracleRounding c 2 (roundInUnit (flS c.fmt) (Fl.round c.fmt) c.coef c.consA c.consS
      (baseFactor (flS c.fmt) c.pows) c.v) ≠ .fail why ∧
    oracleRounding c 3 (roundInUnit (flS c.fmt) (Fl.trunc c.fmt) c.coef c.consA c.consS
      (baseFactor (flS c.fmt) c.pows) c.v) ≠ .fail why :=
  Proofs.MoreOracleSound.oracleRounding_sound c hf h4 hcA hcS hcc why

theorem oracle_rounding_needs_equal_constants :
    Proofs.MoreOracleSound.cexConst.consA.toRat ≠ Proofs.MoreOracleSound.cexConst.consS.toRat ∧
    ∃ why, oracleRounding Proofs.MoreOracleSound.cexConst 0
      (roundInUnit (flS b32) (Fl.floor b32) Proofs.MoreOracleSound.cexConst.coef Proofs.MoreOracleSound.cexConst.consA
        Proofs.MoreOracleSound.cexConst.consS (baseFactor (flS b32) Proofs.MoreOracleSound.cexConst.pows)
        Proofs.MoreOracleSound.cexConst.v) = .fail why :=
  ⟨Proofs.MoreOracleSound.oracleRounding_needs_equal_constants.2.2.1,
   Proofs.MoreOracleSound.oracleRounding_needs_equal_constants.2.2.2⟩

/-! ### tie to the source: the function bodies regenerated from /repo/src on this run

`Gen.Body.*` below is what the translator read from the Rust source just now; `Body.run` evaluates it
over any storage type.  These theorems state the property's code path *for the regenerated bodies*:
they fail to check as soon as the source computes something else. -/
section SourceTie
open Uom.Body Uom.Gen.Body

/-- the five rounding methods are `roundInUnit` with the storage type's same-named function -/
theorem src_floor (N : NumTy) (env : Env N) (op : N.S.V → N.S.V) (hop : ∀ x, env.fwd m_floor [argV x] = argV (op x)) (a : N.S.V) :
    run N env quantity_inherent_quantity_floor [argQ a]
      = argQ (roundInUnit N.S op env.nCoef env.nConsA env.nConsS (env.bf .U .Dimension) a) := BodyEq.floor_eq N env op hop a
theorem src_ceil (N : NumTy) (env : Env N) (op : N.S.V → N.S.V) (hop : ∀ x, env.fwd m_ceil [argV x] = argV (op x)) (a : N.S.V) :
    run N env quantity_inherent_quantity_ceil [argQ a]
      = argQ (roundInUnit N.S op env.nCoef env.nConsA env.nConsS (env.bf .U .Dimension) a) := BodyEq.ceil_eq N env op hop a
theorem src_round (N : NumTy) (env : Env N) (op : N.S.V → N.S.V) (hop : ∀ x, env.fwd m_round [argV x] = argV (op x)) (a : N.S.V) :
    run N env quantity_inherent_quantity_round [argQ a]
      = argQ (roundInUnit N.S op env.nCoef env.nConsA env.nConsS (env.bf .U .Dimension) a) := BodyEq.round_eq N env op hop a
theorem src_trunc (N : NumTy) (env : Env N) (op : N.S.V → N.S.V) (hop : ∀ x, env.fwd m_trunc [argV x] = argV (op x)) (a : N.S.V) :
    run N env quantity_inherent_quantity_trunc [argQ a]
      = argQ (roundInUnit N.S op env.nCoef env.nConsA env.nConsS (env.bf .U .Dimension) a) := BodyEq.trunc_eq N env op hop a
theorem src_fract (N : NumTy) (env : Env N) (op : N.S.V → N.S.V) (hop : ∀ x, env.fwd m_fract [argV x] = argV (op x)) (a : N.S.V) :
    run N env quantity_inherent_quantity_fract [argQ a]
      = argQ (roundInUnit N.S op env.nCoef env.nConsA env.nConsS (env.bf .U .Dimension) a) := BodyEq.fract_eq N env op hop a

end SourceTie

end Uom.C16
