import Uom.Proofs.Exact
import Mathlib.Algebra.Order.Floor.Ring
import Mathlib.Data.Rat.Floor
/-!
# C16 — rounding to a unit rounds the value as expressed in that unit

`roundInUnit S op coef cA cS f v` is the transcription of `floor/ceil/round/trunc/fract::<N>` of
src/quantity.rs: `Self::new::<N>(self.get::<N>().op())`.  The float instances are tied to the code
bit-for-bit by the correspondence run; the theorems below are the exact-arithmetic specification
(what the float results approximate within the C03 bounds) and hold for every unit (any
coefficient, any offset), every base-unit set (any base factor `f`) and every value.
-/
namespace Uom.C16
open Uom

/-- the code path, for every storage type: convert out, apply the storage type's function, convert in -/
theorem round_in_unit_formula (S : Storage) (op : S.V → S.V) (coef cA cS f : S.T) (v : S.V) :
    roundInUnit S op coef cA cS f v = toBase S coef cA f (op (fromBase S coef cS f v)) := rfl

/-- exact storage: the result read back in the unit is *exactly* `op` of the original read in the unit
    (so it is an integer for floor/ceil/round/trunc), for every unit and base-unit set -/
theorem read_back_exact (op : Rat → Rat) (coef c f v : Rat) (hc : coef ≠ 0) (hf : f ≠ 0) :
    fromBase ratS coef c f (roundInUnit ratS op coef c c f v) = op (fromBase ratS coef c f v) := by
  unfold roundInUnit
  exact roundtrip_rat coef c f _ hc hf

/-- `floor` in a unit yields an integer number of units that brackets the original from below -/
theorem floor_brackets (coef c f v : Rat) (hc : coef ≠ 0) (hf : f ≠ 0) :
    let g := fromBase ratS coef c f v
    let r := fromBase ratS coef c f (roundInUnit ratS (fun x => (⌊x⌋ : Rat)) coef c c f v)
    r = (⌊g⌋ : Rat) ∧ r ≤ g ∧ g < r + 1 := by
  intro g r
  have h : r = (⌊g⌋ : Rat) := read_back_exact _ coef c f v hc hf
  refine ⟨h, ?_, ?_⟩
  · rw [h]; exact Int.floor_le g
  · rw [h]; exact Int.lt_floor_add_one g

/-- `ceil` in a unit brackets from above -/
theorem ceil_brackets (coef c f v : Rat) (hc : coef ≠ 0) (hf : f ≠ 0) :
    let g := fromBase ratS coef c f v
    let r := fromBase ratS coef c f (roundInUnit ratS (fun x => (⌈x⌉ : Rat)) coef c c f v)
    r = (⌈g⌉ : Rat) ∧ g ≤ r ∧ r < g + 1 := by
  intro g r
  have h : r = (⌈g⌉ : Rat) := read_back_exact _ coef c f v hc hf
  refine ⟨h, ?_, ?_⟩
  · rw [h]; exact Int.le_ceil g
  · rw [h]; exact Int.ceil_lt_add_one g

/-- `trunc + fract` restores the original (units without offset: two offsets cannot be added, C09) -/
theorem trunc_add_fract (tr : Rat → Rat) (coef f v : Rat) (hc : coef ≠ 0) (hf : f ≠ 0) :
    roundInUnit ratS tr coef 0 0 f v + roundInUnit ratS (fun x => x - tr x) coef 0 0 f v = v := by
  unfold roundInUnit
  simp only [toBase_rat, fromBase_rat]
  field_simp
  ring

/-- the result does not depend on the base units in use: the *physical* value (stored value times the
    base factor) of the rounded quantity is the same function of the physical value of the original -/
theorem base_independent (op : Rat → Rat) (coef c f f' v : Rat) (hf : f ≠ 0) (hf' : f' ≠ 0) :
    roundInUnit ratS op coef c c f v * f = roundInUnit ratS op coef c c f' (v * f / f') * f' := by
  unfold roundInUnit
  simp only [toBase_rat, fromBase_rat]
  have : v * f / f' * f' / coef = v * f / coef := by field_simp
  rw [this]
  field_simp

/-- non-vacuity: 3.7 ft with the metre as base unit floors to 3 ft = 0.9144 m -/
example : roundInUnit ratS (fun x => (⌊x⌋ : Rat)) (3048 / 10000) 0 0 1 (3.7 * 3048 / 10000) = 9144 / 10000 := by
  unfold roundInUnit
  simp only [toBase_rat, fromBase_rat]
  norm_num

end Uom.C16
