import Uom.Model.Conv
import Uom.Model.Oracle
import Uom.Proofs.FlConvIdentity
import Uom.Proofs.KernelFloat
import Uom.Proofs.FlCanonical
import Uom.Proofs.FlFold
import Uom.Proofs.BodyEq.Conv
import Uom.Proofs.OracleSound
import Uom.Proofs.BodyEq.Powi
import Uom.Proofs.BodyEq.UnitMac
import Uom.Proofs.BodyEq.FmtGlue
import Uom.Proofs.BodyEq.LibConst
import Uom.Proofs.DurPowOracleSound
import Uom.Proofs.PowNormalDischarge
/-!
# C03 — unit conversion on construction and read-back is numerically faithful (floats)

Property theorems only; helper lemmas live in `Uom/Proofs`.
`flS f` is the float storage algebra (bit-exact IEEE-754 soft-float, `Uom/Model/SoftFloat.lean`),
`toBase`/`fromBase` are the transcriptions of `to_base`/`from_base` in src/system.rs.
-/
namespace Uom.C03
open Uom

/-- `new::<N>(v)` stores `(v ⊕ c) ⊗ (coef ⊘ f)` when `coef ≥ f`, else `((v ⊕ c) ⊗ coef) ⊘ f`,
    where ⊕ ⊗ ⊘ are the correctly rounded IEEE operations: exactly three roundings on either branch,
    for every input (finite or not). -/
theorem new_formula (f : Fmt) (coef c fac v : Fl) :
    toBase (flS f) coef c fac v =
      if Fl.ge coef fac then Fl.mul f (Fl.add f v c) (Fl.div f coef fac)
      else Fl.div f (Fl.mul f (Fl.add f v c) coef) fac := rfl

/-- `get::<N>()` returns `(v ⊗ (f ⊘ coef)) ⊖ c` when `coef < f`, else `(v ⊘ (coef ⊘ f)) ⊖ c`. -/
theorem get_formula (f : Fmt) (coef c fac v : Fl) :
    fromBase (flS f) coef c fac v =
      if Fl.lt coef fac then Fl.sub f (Fl.mul f v (Fl.div f fac coef)) c
      else Fl.sub f (Fl.div f v (Fl.div f coef fac)) c := rfl

/-- the base factor is the left fold `1 ⊗ p₁ ⊗ … ⊗ pₙ` in system order -/
theorem baseFactor_formula (f : Fmt) (ps : List Fl) :
    baseFactor (flS f) ps = ps.foldl (Fl.mul f) (Fl.one f) := rfl

/-- **Bit-exact identity on construction.**  When the unit's coefficient equals the base factor in use
    (the coherent unit in default base units: `1 = 1`; a base unit used as its own base, e.g. the
    kilometre in a kilometre-based system: `1000 = 1000`) and the unit has no offset, `new::<N>(v)`
    stores `v` itself — for every canonical `v`: −0.0, +0.0, subnormals, ±∞ and NaN included. -/
theorem new_id (f : Fmt) (hf : f.WF) (v c : Fl) (hv : Fl.Canonical f v)
    (hfin : c.isFinite = true) (hnz : c.isZero = false) :
    toBase (flS f) c (Fl.zero f true) c v = v :=
  Fl.toBase_id' hf v c hv hfin hnz

/-- **Bit-exact identity on read-back** under the same condition. -/
theorem get_id (f : Fmt) (hf : f.WF) (v c : Fl) (hv : Fl.Canonical f v)
    (hfin : c.isFinite = true) (hnz : c.isZero = false) :
    fromBase (flS f) c (Fl.zero f false) c v = v :=
  Fl.fromBase_id' hf v c hv hfin hnz

/-- in the default base units every power `1.powi(d)` is `1`, and the folded base factor is exactly `1` -/
theorem baseFactor_ones (f : Fmt) (hf : f.WF) (n : Nat) :
    baseFactor (flS f) (List.replicate n (Fl.one f)) = Fl.one f := by
  unfold baseFactor
  induction n with
  | zero => rfl
  | succ n ih =>
    simp only [List.replicate_succ, List.foldl_cons]
    have : Fl.mul f (Fl.one f) (Fl.one f) = Fl.one f := Fl.mul_one hf (Fl.one f) (Fl.one_canonical hf)
    rw [this]; exact ih

theorem one_not_zero (f : Fmt) : (Fl.one f).isZero = false := by
  unfold Fl.one Fl.isZero
  have : 2 ^ (f.p - 1) ≠ 0 := Nat.pos_iff_ne_zero.mp (Nat.two_pow_pos _)
  split
  · rename_i h; injection h with _ hm _; exact absurd hm this
  · rfl

/-- the coherent SI unit in the default base units: construction and read-back are the identity -/
theorem coherent_unit_id (f : Fmt) (hf : f.WF) (n : Nat) (v : Fl) (hv : Fl.Canonical f v) :
    toBase (flS f) (Fl.one f) (Fl.zero f true) (baseFactor (flS f) (List.replicate n (Fl.one f))) v = v ∧
    fromBase (flS f) (Fl.one f) (Fl.zero f false) (baseFactor (flS f) (List.replicate n (Fl.one f))) v = v := by
  rw [baseFactor_ones f hf n]
  exact ⟨new_id f hf v _ hv rfl (one_not_zero f), get_id f hf v _ hv rfl (one_not_zero f)⟩

/-- **Accuracy of construction.**  Whenever no overflow or underflow intervenes (`ToBaseOk`: operands
    finite, every intermediate finite, every exact intermediate product/quotient at least the smallest
    normal number), the stored value is `(v + c)·coef/f` — computed over the reals from the float
    operands — up to three roundings: `stored = exact·θ` with `(1-u)³ ≤ θ ≤ (1-u)⁻³`, `u = 2^-p`.
    This is a theorem about the soft-float model itself (no standard-model assumption left). -/
theorem new_accuracy (f : Fmt) (hp : 1 ≤ f.p) (coef c fac v : Fl) (H : Proofs.ToBaseOk f coef c fac v) :
    Proofs.Approx (Proofs.uro f) 3 (Fl.toRat (toBase (flS f) coef c fac v))
      ((v.toRat + c.toRat) * coef.toRat / fac.toRat) :=
  (Proofs.toBase_flS_approx hp H).1

/-- **Accuracy of read-back** for a unit with offset `c`: the error is bounded by two roundings of the
    scaled term `v·f/coef` plus one rounding of the result — "ulps at the larger of the result and the
    offset term". -/
theorem get_accuracy (f : Fmt) (hp : 1 ≤ f.p) (coef c fac v : Fl) (H : Proofs.FromBaseOk f coef fac v)
    (hc : Proofs.Ok f c) (hfin : (fromBase (flS f) coef c fac v).isFinite = true) :
    |Fl.toRat (fromBase (flS f) coef c fac v) - (v.toRat * fac.toRat / coef.toRat - c.toRat)| ≤
      ((1 - Proofs.uro f) ^ (-2 : ℤ) - 1) * |v.toRat * fac.toRat / coef.toRat| * (1 + Proofs.uro f)
        + Proofs.uro f * |v.toRat * fac.toRat / coef.toRat - c.toRat| :=
  Proofs.fromBase_flS_abs_le hp H hc hfin

/-- **Construct-then-read in one unit** (unit without offset) returns the input up to six roundings. -/
theorem roundtrip_accuracy (f : Fmt) (hp : 1 ≤ f.p) (coef fac v : Fl)
    (hcoef : coef.toRat ≠ 0) (hfac : fac.toRat ≠ 0)
    (H1 : Proofs.ToBaseOk f coef (flS f).constAdd fac v)
    (H2 : Proofs.FromBaseOk f coef fac (toBase (flS f) coef (flS f).constAdd fac v))
    (hfin : Fl.isFinite (fromBase (flS f) coef (flS f).constSub fac
      (toBase (flS f) coef (flS f).constAdd fac v)) = true) :
    Proofs.Approx (Proofs.uro f) 6
      (Fl.toRat (fromBase (flS f) coef (flS f).constSub fac (toBase (flS f) coef (flS f).constAdd fac v)))
      v.toRat :=
  Proofs.roundtrip_flS_approx hp hcoef hfac H1 H2 hfin

/-- the closed form of `Approx`: `k` roundings mean a relative error of at most `(1-u)^-k − 1` -/
theorem approx_closed_form (u : Rat) (k : ℕ) (xh x : Rat) (hu0 : 0 ≤ u) (hu1 : u < 1)
    (h : Proofs.Approx u k xh x) : |xh - x| ≤ ((1 - u) ^ (-(k : ℤ)) - 1) * |x| :=
  Proofs.Approx.abs_sub_le' hu0 hu1 h

/-- the identity holds for **every bit pattern** of binary64 / binary32 (each decodes to a canonical value,
    and re-encodes to itself unless it is a NaN) -/
theorem new_id_all_bits_f64 (bits : Nat) (c : Fl) (hfin : c.isFinite = true) (hnz : c.isZero = false) :
    toBase (flS b64) c (Fl.zero b64 true) c (Fl.ofBits b64 bits) = Fl.ofBits b64 bits :=
  new_id b64 b64_wf _ c (Fl.ofBits_canonical_b64 bits) hfin hnz

theorem new_id_all_bits_f32 (bits : Nat) (c : Fl) (hfin : c.isFinite = true) (hnz : c.isZero = false) :
    toBase (flS b32) c (Fl.zero b32 true) c (Fl.ofBits b32 bits) = Fl.ofBits b32 bits :=
  new_id b32 b32_wf _ c (Fl.ofBits_canonical_b32 bits) hfin hnz

theorem bits_roundtrip_f64 (bits : Nat) (hb : bits < 2 ^ 64) (hnan : Fl.ofBits b64 bits ≠ Fl.nan) :
    Fl.toBits b64 (Fl.ofBits b64 bits) = bits := Fl.toBits_ofBits_b64 bits hb hnan

/-- every result of the conversion kernel is again a canonical value (so results can be fed back) -/
theorem results_canonical (f : Fmt) (hf : f.WF) (v coef c fac : Fl) :
    Fl.Canonical f (toBase (flS f) coef c fac v) ∧ Fl.Canonical f (fromBase (flS f) coef c fac v) :=
  ⟨Fl.toBase_canonical hf v coef c fac, Fl.fromBase_canonical hf v coef c fac⟩

/-- both real formats satisfy the well-formedness hypothesis of the identity theorems -/
theorem formats_wf : b64.WF ∧ b32.WF := ⟨b64_wf, b32_wf⟩

/-- non-vacuity: −0.0 and a subnormal are canonical binary64 values, 1000.0 is finite non-zero -/
example : Fl.Canonical b64 (Fl.zero b64 true) ∧ Fl.Canonical b64 (Fl.ofBits b64 1) ∧
    (Fl.ofBits b64 0x408f400000000000).isFinite = true :=
  ⟨Or.inr ⟨by decide, rfl⟩, Or.inr ⟨by decide +kernel, by decide +kernel⟩, by decide +kernel⟩

/-- non-vacuity / sanity: 1 km in SI base units is stored as exactly 1000.0 (binary64) -/
example : Fl.toBits b64 (toBase (flS b64) (Fl.ofBits b64 0x408f400000000000) (Fl.zero b64 true) (Fl.one b64)
    (Fl.ofBits b64 0x3ff0000000000000)) = 0x408f400000000000 := by decide +kernel

/-! ### the executable oracle accepts the model, for every input

`oracleNew`, `oracleGet`, `oracleRoundTrip` (Uom/Model/Oracle.lean) are what the driver evaluates on
the implementation's observed results; their guards (`toBaseNormal`, `fromBaseNormal`) are executable
Booleans.  These theorems close the loop between the proved accuracy bounds and the executable check:
for **every** case (canonical inputs, the identity constants signed as the crate signs them), the
model's own result is never rejected.  So "the implementation is bit-identical to the model"
(`DIFF = 0` in a run) implies "the implementation passes the oracle", and the oracle's tolerance is
not an empirical fudge: it is implied by the rounding model of the soft-float. -/

theorem oracle_accepts_new (c : ConvCase) (hf : c.fmt.WF) (h4 : 4 ≤ c.fmt.p)
    (hv : Fl.Canonical c.fmt c.v) (hcoef : Fl.Canonical c.fmt c.coef) (hcA : Fl.Canonical c.fmt c.consA)
    (hA : c.consA.isZero = true → c.consA.signBit = true) (why : String) :
    oracleNew c (toBase (flS c.fmt) c.coef c.consA (baseFactor (flS c.fmt) c.pows) c.v) ≠ .fail why :=
  Proofs.oracleNew_sound c hf h4 hv hcoef hcA hA why

theorem oracle_accepts_get (c : ConvCase) (hf : c.fmt.WF) (h4 : 4 ≤ c.fmt.p)
    (hv : Fl.Canonical c.fmt c.v) (hcoef : Fl.Canonical c.fmt c.coef) (hcS : Fl.Canonical c.fmt c.consS)
    (hS : c.consS.isZero = true → c.consS.signBit = false) (why : String) :
    oracleGet c (fromBase (flS c.fmt) c.coef c.consS (baseFactor (flS c.fmt) c.pows) c.v) ≠ .fail why :=
  Proofs.oracleGet_sound c hf h4 hv hcoef hcS hS why

theorem oracle_accepts_roundtrip (c : ConvCase) (hf : c.fmt.WF) (h4 : 4 ≤ c.fmt.p)
    (hv : Fl.Canonical c.fmt c.v) (hcoef : Fl.Canonical c.fmt c.coef)
    (hcA : Fl.Canonical c.fmt c.consA) (hcS : Fl.Canonical c.fmt c.consS)
    (hA : c.consA.isZero = true → c.consA.signBit = true)
    (hS : c.consS.isZero = true → c.consS.signBit = false)
    (hAS : c.consS.isZero = true → c.consA.isZero = true)
    (hcc : c.consA.toRat = c.consS.toRat) (why : String) :
    oracleRoundTrip c (fromBase (flS c.fmt) c.coef c.consS (baseFactor (flS c.fmt) c.pows)
      (toBase (flS c.fmt) c.coef c.consA (baseFactor (flS c.fmt) c.pows) c.v)) ≠ .fail why :=
  Proofs.oracleRoundTrip_sound c hf h4 hv hcoef hcA hcS hA hS hAS hcc why

/-- why the sign hypotheses are there (and why the crate uses `-0.0` / `+0.0` as its identity
    constants): with `consA = +0.0` the construction of `-0.0` is `+0.0`, which the identity clause rejects -/
theorem oracle_rejects_wrongly_signed_zero_constant :
    ∃ why, oracleNew Proofs.cexPosZero (toBase (flS Proofs.cexPosZero.fmt) Proofs.cexPosZero.coef Proofs.cexPosZero.consA
      (baseFactor (flS Proofs.cexPosZero.fmt) Proofs.cexPosZero.pows) Proofs.cexPosZero.v) = .fail why :=
  Proofs.oracleNew_unsound_poszero.2.2.2

/-- the executable guard is *weaker* than the hypothesis `ToBaseOk` of `new_accuracy` (a rounded
    product can be normal while the exact one is just below the normal range): the soundness theorems
    above therefore go through a result-based rounding lemma (`Proofs.mul_approx_normal`), not through
    `new_accuracy` -/
theorem guard_weaker_than_ToBaseOk :
    toBaseNormal Proofs.cexGap (baseFactor (flS Proofs.cexGap.fmt) Proofs.cexGap.pows) = true ∧
      ¬ Proofs.ToBaseOk Proofs.cexGap.fmt Proofs.cexGap.coef Proofs.cexGap.consA
        (baseFactor (flS Proofs.cexGap.fmt) Proofs.cexGap.pows) Proofs.cexGap.v :=
  Proofs.guard_not_toBaseOk.2.2

/-! ### tie to the source: the function bodies regenerated from /repo/src on this run

`Gen.Body.*` below is what the translator read from the Rust source just now; `Body.run` evaluates it
over any storage type.  These theorems state the property's code path *for the regenerated bodies*:
they fail to check as soon as the source computes something else. -/
section SourceTie
open Uom.Body Uom.Gen.Body

/-- `Q::new::<N>(v)` and `q.get::<N>()` are `toBase` / `fromBase` — the functions every theorem of this
    file is about — for every storage type, unit and base-unit set -/
theorem src_new (N : NumTy) (env : Env N) (v : N.S.V) :
    run N env quantity_inherent_quantity_new [argV v]
      = argQ (toBase N.S env.nCoef env.nConsA (env.bf .U .Dimension) v) := BodyEq.new_eq N env v
theorem src_get (N : NumTy) (env : Env N) (a : N.S.V) :
    run N env quantity_inherent_quantity_get [argQ a]
      = argV (fromBase N.S env.nCoef env.nConsS (env.bf .U .Dimension) a) := BodyEq.get_eq N env a
theorem src_to_base (N : NumTy) (env : Env N) (v : N.S.V) :
    run N env system_free_to_base [argV v] = argV (toBase N.S env.nCoef env.nConsA (env.bf .U .D) v) :=
  BodyEq.to_base_eq N env v
theorem src_from_base (N : NumTy) (env : Env N) (v : N.S.V) :
    run N env system_free_from_base [argV v] = argV (fromBase N.S env.nCoef env.nConsS (env.bf .U .D) v) :=
  BodyEq.from_base_eq N env v

end SourceTie

/-! ### the `pow` oracle accepts the model (and why its first version could not be proved sound) -/

/-- the factors of the base-unit combination: `flPowi` is within `powErr e` roundings of `c ^ e` whenever the
    intermediates are normal (`powErr e = |e| − 1`, `2|e| − 1` for negative exponents: an early rounding error is
    squared by every later squaring) … -/
theorem powi_accuracy (f : Fmt) (hp : 1 ≤ f.p) (c : Fl) (hc : c.isFinite = true) (e : Int) (he : e.natAbs < 2 ^ 64)
    (hN : DurPowOracleSound.PowNormal f c e) :
    Proofs.Approx (Proofs.uro f) (powErr e) (flPowi f c e).toRat (c.toRat ^ e) :=
  DurPowOracleSound.flPowi_approx hp c hc e he hN

/-- … so the oracle of the `pow` lines never rejects the model — **unconditionally**: a normal result forces every
    intermediate of the by-squaring loop to be normal (`PowNormalDischarge.powNormal_of_result`: the loop computes no
    unused square, magnitudes are monotone, rounding is monotone against representable bounds), and a non-normal
    result, a zero or a non-finite coefficient are guarded by the oracle itself -/
theorem oracle_accepts_pow_f32 (c : Fl) (hc : Fl.Canonical b32 c) (e : Int) (he : e.natAbs ≤ 2 ^ 20) :
    DurPowOracleSound.NotProp (oraclePowFl b32 c e (flPowi b32 c e)) := PowNormalDischarge.oraclePowFl_sound'_b32 c hc e he
theorem oracle_accepts_pow_f64 (c : Fl) (hc : Fl.Canonical b64 c) (e : Int) (he : e.natAbs < 2 ^ 31) :
    DurPowOracleSound.NotProp (oraclePowFl b64 c e (flPowi b64 c e)) := PowNormalDischarge.oraclePowFl_sound'_b64 c hc e he

/-- the oracle as first written (tolerance = number of *operations* of the by-squaring loop) rejected the
    model's own result: binary32, `c = 1 + 2⁻¹²`, `e = 64` (kernel-evaluated); the repaired one accepts it -/
theorem pow_oracle_old_rejected_the_model :
    DurPowOracleSound.isProp (oraclePowFlOld b32 (Fl.ofBits b32 0x3f800800) 64 (flPowi b32 (Fl.ofBits b32 0x3f800800) 64)) = true ∧
    DurPowOracleSound.isProp (oraclePowFl b32 (Fl.ofBits b32 0x3f800800) 64 (flPowi b32 (Fl.ofBits b32 0x3f800800) 64)) = false :=
  ⟨DurPowOracleSound.oraclePowFlOld_false_alarm_b32_64, DurPowOracleSound.oraclePowFl_accepts_witnesses.1⟩

/-! ### tie to the source: the float `ConversionFactor::powi` regenerated from /repo/src/lib.rs on this run -/
section SourceTieRx
open Uom.Rx Uom.Gen.RxBody Uom.BodyEq.Powi

/-- the source's `match e.cmp(&0)` dispatch is `flPowi` (one / pow of the reciprocal / pow), for every
    factor and exponent — the function the `pow` lines of the correspondence check compare bit for bit -/
theorem src_powi_float (f : Fmt) (c : Fl) (e : Int) :
    run (envPowi (Fl.one f) (Fl.recip f) (powNat (Fl.one f) (Fl.mul f)))
        lib_ConversionFactor_Self_for_V_powi_Float [.host c, .int e] =
      (.val (.host (flPowi f c e)), []) := powi_float_eq_flPowi f c e

end SourceTieRx

/-! ### tie to the source: what a unit publishes for float storage (`unit!`, /repo/src/unit.rs, this run) -/
section SourceTieUnit
open Uom.Rx Uom.Gen.RxBody Uom.BodyEq.UnitMac

/-- `<unit as Conversion<f32|f64>>::coefficient()` is the declared factor … -/
theorem src_unit_coefficient_float {F T R B : Type} (zero : F) (negF : F → F) (d : Decl F) (L : Lib F T R B) :
    run (envUnit zero negF d L) unit_Conversion_V_for_unit_coefficient_Float [] = (.val (.host (.f d.factor)), []) :=
  coefficient_float zero negF d L

/-- … and `constant(op)` the declared constant, or **−0.0 for `Add` and +0.0 for `Sub`** when none is declared:
    exactly the pair for which `x + c` and `x − c` are the bit-exact identity (`new_id`, `get_id` above) -/
theorem src_unit_constant_float {F T R B : Type} (zero : F) (negF : F → F) (d : Decl F) (L : Lib F T R B) (add : Bool) :
    run (envUnit zero negF d L) unit_Conversion_V_for_unit_constant_Float [.ctor0 (opCode add)] =
      (.val (.host (.f (match d.const with
        | some k => k
        | none => if add then negF zero else zero))), []) :=
  constant_float zero negF d L add

end SourceTieUnit

/-! ### tie to the source: the storage type's own `Conversion` impl (src/lib.rs, this run) -/
section SourceTieLib
open Uom.Rx Uom.Gen.RxBody Uom.BodyEq.LibConst

/-- `V::coefficient()` — the start of every base-factor product — is `one()` (trait default), and the float
    `constant(op)` override is the signed-zero pair of the storage algebra `flS` the theorems above are
    stated over: `constAdd = −0.0`, `constSub = +0.0` -/
theorem src_storage_coefficient {T : Type} (one zero : T) (neg : T → T) :
    run (envLib one zero neg) lib_free_coefficient [] = (.val (.host one), []) := default_coefficient one zero neg
theorem src_storage_constant_float (f : Fmt) :
    run (envLib (Fl.one f) (Fl.zero f false) Fl.neg) lib_Conversion_Self_for_V_constant_Float [.ctor0 c_ConstantOp_Add] =
      (.val (.host (flS f).constAdd), []) ∧
    run (envLib (Fl.one f) (Fl.zero f false) Fl.neg) lib_Conversion_Self_for_V_constant_Float [.ctor0 c_ConstantOp_Sub] =
      (.val (.host (flS f).constSub), []) := float_constant_is_flS f

/-- the trait default `Conversion::conversion(&self)` — the one every *unit* uses, `unit!` overrides only
    `coefficient` and `constant` — is `Self::coefficient()`, whatever the receiver -/
theorem src_default_conversion (k : RV Unit) (hk : k ≠ .bad) (hp : k ≠ .panicked) (x : RV Unit) :
    run (Uom.BodyEq.FmtGlue.envConst c_Self_coefficient k) lib_free_conversion [x] = (.val k, []) :=
  Uom.BodyEq.FmtGlue.default_conversion_eq k hk hp x

end SourceTieLib

end Uom.C03
