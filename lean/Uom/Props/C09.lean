import Uom.Proofs.Exact
import Uom.Gen.Table
import Uom.Gen.Names
import Uom.Proofs.BodyEq.Temp
import Uom.Proofs.FloatOps
/-!
# C09 — temperature points are affine, temperature intervals are linear

Table obligations are decided by the kernel on the table regenerated from src/si on every run; the
algebraic theorems are for exact storage, any base-unit set (`f` = base factor of the kelvin position).
-/
namespace Uom.C09
open Uom

def tt : QuantityDecl := Gen.q_thermodynamic_temperature
def ti : QuantityDecl := Gen.q_temperature_interval

/-- a unit's exact coefficient and offset as declared -/
def unitCoef (q : QuantityDecl) (n : Str) : Option Rat := (q.findUnit n).map (fun u => u.coef.exact)
def unitCons (q : QuantityDecl) (n : Str) : Option (Option Rat) := (q.findUnit n).map (fun u => u.cons.map CExpr.exact)

/-- only the thermodynamic temperature has offsets, in the whole SI table -/
theorem offsets_only_in_tt :
    (Gen.table.all fun q => q.modName == Gen.N.thermodynamic_temperature || q.units.all fun u => u.cons.isNone) = true := by
  decide +kernel

/-- … and there only on the Celsius and Fahrenheit scales -/
theorem offsets_only_celsius_fahrenheit :
    (tt.units.all fun u => u.cons.isNone || u.name == Gen.N.degree_celsius || u.name == Gen.N.degree_fahrenheit) = true := by
  decide +kernel

/-- the two offset scales: °C = (1, 273.15), °F = (5/9, 459.67) -/
theorem celsius_decl : unitCoef tt Gen.N.degree_celsius = some 1 ∧ unitCons tt Gen.N.degree_celsius = some (some (27315 / 100)) := by
  decide +kernel

theorem fahrenheit_decl : unitCoef tt Gen.N.degree_fahrenheit = some (5 / 9) ∧
    unitCons tt Gen.N.degree_fahrenheit = some (some (45967 / 100)) := by
  decide +kernel

/-- an interval in a named unit uses the scale of the point unit of the same name, and never an offset:
    the two quantities declare the same unit names, in the same order, with equal coefficients -/
theorem interval_units_match :
    (tt.units.map (·.name)) = (ti.units.map (·.name)) ∧
    (tt.units.map (·.coef.exact)) = (ti.units.map (·.coef.exact)) ∧
    (ti.units.all fun u => u.cons.isNone) = true := by
  decide +kernel

/-- the two quantities have the kelvin exponent 1 only, and the temperature kind / the default kind -/
theorem temperature_dims : tt.dim = [0, 0, 0, 0, 1, 0, 0] ∧ ti.dim = [0, 0, 0, 0, 1, 0, 0] ∧ tt.kind ≠ 0 ∧ ti.kind = 0 := by
  decide +kernel

/-! ### affine / linear algebra, exact storage, any base factor `f ≠ 0` -/

/-- 0 °C = 273.15 K (stored in base units with factor `f`: physical value = stored · f) -/
theorem zero_celsius_kelvin (f : Rat) (hf : f ≠ 0) : toBase ratS 1 (27315 / 100) f 0 * f = 27315 / 100 := by
  rw [toBase_rat]; field_simp; ring

/-- 0 °C = 32 °F, for every base-unit set -/
theorem zero_celsius_fahrenheit (f : Rat) (hf : f ≠ 0) :
    fromBase ratS (5 / 9) (45967 / 100) f (toBase ratS 1 (27315 / 100) f 0) = 32 := by
  rw [toBase_rat, fromBase_rat]; field_simp; ring

/-- a point `t` plus an interval `d`, both given in a scale with coefficient `k` (offset `c` for the
    point, none for the interval), is the point `t + d` in that scale -/
theorem point_plus_interval (k c f t d : Rat) (hk : k ≠ 0) (hf : f ≠ 0) :
    fromBase ratS k c f (toBase ratS k c f t + toBase ratS k 0 f d) = t + d := by
  simp only [toBase_rat, fromBase_rat]; field_simp; ring

theorem point_minus_interval (k c f t d : Rat) (hk : k ≠ 0) (hf : f ≠ 0) :
    fromBase ratS k c f (toBase ratS k c f t - toBase ratS k 0 f d) = t - d := by
  simp only [toBase_rat, fromBase_rat]; field_simp; ring

/-- the interval may be stored in other base units (`f'`): `TT<Ul> + TI<Ur>` converts it first -/
theorem point_plus_interval_mixed (k c f f' t d : Rat) (hk : k ≠ 0) (hf : f ≠ 0) (hf' : f' ≠ 0) :
    fromBase ratS k c f (toBase ratS k c f t + changeBase ratS f f' (toBase ratS k 0 f' d)) = t + d := by
  simp only [toBase_rat, fromBase_rat, changeBase_rat]; field_simp; ring

/-- intervals are linear: no offset is ever applied to them -/
theorem interval_linear (k f a b : Rat) :
    toBase ratS k 0 f (a + b) = toBase ratS k 0 f a + toBase ratS k 0 f b := by
  simp only [toBase_rat]; ring

/-- an interval of 1 °C is 1 K -/
theorem one_celsius_interval (f : Rat) (hf : f ≠ 0) : toBase ratS 1 0 f 1 * f = 1 := by
  rw [toBase_rat]; field_simp; ring

/-- the offset is applied exactly once on the way in and removed exactly once on the way out -/
theorem offset_once (k c f t : Rat) (hk : k ≠ 0) (hf : f ≠ 0) :
    fromBase ratS k c f (toBase ratS k c f t) = t := roundtrip_rat k c f t hk hf

/-! ### floats: proved bounds — a point plus an interval given in the same scale reads back as `t + d`
up to a handful of roundings of the *absolute* temperature (`t + c`), which is what float storage of
an affine quantity can deliver -/
theorem point_plus_interval_float (f : Fmt) (hp : 1 ≤ f.p) (coef cA cS fac t d : Fl)
    (hcoef : coef.toRat ≠ 0) (hfac : fac.toRat ≠ 0) (hcc : cA.toRat = cS.toRat)
    (Ht : Proofs.ToBaseOk f coef cA fac t) (Hd : Proofs.ToBaseOk f coef (flS f).constAdd fac d)
    (hsum : (Fl.add f (toBase (flS f) coef cA fac t)
      (toBase (flS f) coef (flS f).constAdd fac d)).isFinite = true)
    (Hs : Proofs.FromBaseOk f coef fac (Fl.add f (toBase (flS f) coef cA fac t)
      (toBase (flS f) coef (flS f).constAdd fac d)))
    (hcS : Proofs.Ok f cS)
    (hfin : Fl.isFinite (fromBase (flS f) coef cS fac (Fl.add f (toBase (flS f) coef cA fac t)
      (toBase (flS f) coef (flS f).constAdd fac d))) = true) :
    |Fl.toRat (fromBase (flS f) coef cS fac (Fl.add f (toBase (flS f) coef cA fac t)
        (toBase (flS f) coef (flS f).constAdd fac d))) - (t.toRat + d.toRat)| ≤
      ((1 + Proofs.uro f) * ((1 - Proofs.uro f) ^ (-(3 : ℤ)) - 1) * (|t.toRat + cS.toRat| + |d.toRat|)
          + Proofs.uro f * |t.toRat + cS.toRat + d.toRat|)
        * (1 + ((1 - Proofs.uro f) ^ (-(2 : ℤ)) - 1) * (1 + Proofs.uro f) + Proofs.uro f)
      + ((1 - Proofs.uro f) ^ (-(2 : ℤ)) - 1) * (1 + Proofs.uro f) * |t.toRat + cS.toRat + d.toRat|
      + Proofs.uro f * |t.toRat + d.toRat| :=
  Proofs.point_plus_interval_float hp hcoef hfac hcc Ht Hd hsum Hs hcS hfin

/-! ### tie to the source: the function bodies regenerated from /repo/src on this run

`Gen.Body.*` below is what the translator read from the Rust source just now; `Body.run` evaluates it
over any storage type.  These theorems state the property's code path *for the regenerated bodies*:
they fail to check as soon as the source computes something else. -/
section SourceTie
open Uom.Body Uom.Gen.Body

/-- the five point/interval forms, autoconvert on: the interval (or, for `TI + TT`, the point) on the
    right is re-expressed by `change_base` — a pure scaling, no offset — and added / subtracted raw -/
theorem src_temperature_forms_on (N : NumTy) (env : Env N) (a b : N.S.V) :
    run N env si_thermodynamic_temperature_Add_TemperatureInterval_for_ThermodynamicTemperature_add_auto [argQ a, argQ b]
      = .q (binOpOn N .ttAddTi (env.bf .Ul .Dimension) (env.bf .Ur .Dimension) a b) ∧
    run N env si_thermodynamic_temperature_Sub_TemperatureInterval_for_ThermodynamicTemperature_sub_auto [argQ a, argQ b]
      = .q (binOpOn N .ttSubTi (env.bf .Ul .Dimension) (env.bf .Ur .Dimension) a b) ∧
    run N env si_thermodynamic_temperature_AddAssign_TemperatureInterval_for_ThermodynamicTemperature_add_assign_auto [argQ a, argQ b]
      = .v (binOpOn N .ttAddaTi (env.bf .Ul .Dimension) (env.bf .Ur .Dimension) a b) ∧
    run N env si_thermodynamic_temperature_SubAssign_TemperatureInterval_for_ThermodynamicTemperature_sub_assign_auto [argQ a, argQ b]
      = .v (binOpOn N .ttSubaTi (env.bf .Ul .Dimension) (env.bf .Ur .Dimension) a b) ∧
    run N env si_temperature_interval_Add_ThermodynamicTemperature_for_TemperatureInterval_add_auto [argQ a, argQ b]
      = .q (binOpOn N .tiAddTt (env.bf .Ul .Dimension) (env.bf .Ur .Dimension) a b) :=
  ⟨rfl, rfl, rfl, rfl, rfl⟩

theorem src_temperature_forms_off (N : NumTy) (env : Env N) (a b : N.S.V) :
    run N env si_thermodynamic_temperature_Add_TemperatureInterval_for_ThermodynamicTemperature_add_noauto [argQ a, argQ b]
      = .q (rawBin N .add a b) ∧
    run N env si_thermodynamic_temperature_Sub_TemperatureInterval_for_ThermodynamicTemperature_sub_noauto [argQ a, argQ b]
      = .q (rawBin N .sub a b) ∧
    run N env si_thermodynamic_temperature_AddAssign_TemperatureInterval_for_ThermodynamicTemperature_add_assign_noauto [argQ a, argQ b]
      = .v (rawBin N .add a b) ∧
    run N env si_thermodynamic_temperature_SubAssign_TemperatureInterval_for_ThermodynamicTemperature_sub_assign_noauto [argQ a, argQ b]
      = .v (rawBin N .sub a b) ∧
    run N env si_temperature_interval_Add_ThermodynamicTemperature_for_TemperatureInterval_add_noauto [argQ a, argQ b]
      = .q (rawBin N .add a b) :=
  ⟨rfl, rfl, rfl, rfl, rfl⟩

end SourceTie

end Uom.C09
