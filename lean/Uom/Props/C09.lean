import Uom.Proofs.Exact
import Uom.Gen.Table
import Uom.Gen.Names
/-!
# C09 — temperature points are affine, temperature intervals are linear

Table obligations are decided by the kernel on the table regenerated from src/si on every run; the
algebraic theorems are for exact storage, any base-unit set (`f` = base factor of the kelvin position).
-/
namespace Uom.C09
open Uom

def tt : QuantityDecl := Gen.q_thermodynamic_temperature
def ti : QuantityDecl := Gen.q_temperature_interval

/-- a unit's exact coefficient and offset as declared -/
def unitCoef (q : QuantityDecl) (n : Str) : Option Rat := (q.findUnit n).map (fun u => u.coef.exact)
def unitCons (q : QuantityDecl) (n : Str) : Option (Option Rat) := (q.findUnit n).map (fun u => u.cons.map CExpr.exact)

/-- only the thermodynamic temperature has offsets, in the whole SI table -/
theorem offsets_only_in_tt :
    (Gen.table.all fun q => q.modName == Gen.N.thermodynamic_temperature || q.units.all fun u => u.cons.isNone) = true := by
  decide +kernel

/-- … and there only on the Celsius and Fahrenheit scales -/
theorem offsets_only_celsius_fahrenheit :
    (tt.units.all fun u => u.cons.isNone || u.name == Gen.N.degree_celsius || u.name == Gen.N.degree_fahrenheit) = true := by
  decide +kernel

/-- the two offset scales: °C = (1, 273.15), °F = (5/9, 459.67) -/
theorem celsius_decl : unitCoef tt Gen.N.degree_celsius = some 1 ∧ unitCons tt Gen.N.degree_celsius = some (some (27315 / 100)) := by
  decide +kernel

theorem fahrenheit_decl : unitCoef tt Gen.N.degree_fahrenheit = some (5 / 9) ∧
    unitCons tt Gen.N.degree_fahrenheit = some (some (45967 / 100)) := by
  decide +kernel

/-- an interval in a named unit uses the scale of the point unit of the same name, and never an offset:
    the two quantities declare the same unit names, in the same order, with equal coefficients -/
theorem interval_units_match :
    (tt.units.map (·.name)) = (ti.units.map (·.name)) ∧
    (tt.units.map (·.coef.exact)) = (ti.units.map (·.coef.exact)) ∧
    (ti.units.all fun u => u.cons.isNone) = true := by
  decide +kernel

/-- the two quantities have the kelvin exponent 1 only, and the temperature kind / the default kind -/
theorem temperature_dims : tt.dim = [0, 0, 0, 0, 1, 0, 0] ∧ ti.dim = [0, 0, 0, 0, 1, 0, 0] ∧ tt.kind ≠ 0 ∧ ti.kind = 0 := by
  decide +kernel

/-! ### affine / linear algebra, exact storage, any base factor `f ≠ 0` -/

/-- 0 °C = 273.15 K (stored in base units with factor `f`: physical value = stored · f) -/
theorem zero_celsius_kelvin (f : Rat) (hf : f ≠ 0) : toBase ratS 1 (27315 / 100) f 0 * f = 27315 / 100 := by
  rw [toBase_rat]; field_simp; ring

/-- 0 °C = 32 °F, for every base-unit set -/
theorem zero_celsius_fahrenheit (f : Rat) (hf : f ≠ 0) :
    fromBase ratS (5 / 9) (45967 / 100) f (toBase ratS 1 (27315 / 100) f 0) = 32 := by
  rw [toBase_rat, fromBase_rat]; field_simp; ring

/-- a point `t` plus an interval `d`, both given in a scale with coefficient `k` (offset `c` for the
    point, none for the interval), is the point `t + d` in that scale -/
theorem point_plus_interval (k c f t d : Rat) (hk : k ≠ 0) (hf : f ≠ 0) :
    fromBase ratS k c f (toBase ratS k c f t + toBase ratS k 0 f d) = t + d := by
  simp only [toBase_rat, fromBase_rat]; field_simp; ring

theorem point_minus_interval (k c f t d : Rat) (hk : k ≠ 0) (hf : f ≠ 0) :
    fromBase ratS k c f (toBase ratS k c f t - toBase ratS k 0 f d) = t - d := by
  simp only [toBase_rat, fromBase_rat]; field_simp; ring

/-- the interval may be stored in other base units (`f'`): `TT<Ul> + TI<Ur>` converts it first -/
theorem point_plus_interval_mixed (k c f f' t d : Rat) (hk : k ≠ 0) (hf : f ≠ 0) (hf' : f' ≠ 0) :
    fromBase ratS k c f (toBase ratS k c f t + changeBase ratS f f' (toBase ratS k 0 f' d)) = t + d := by
  simp only [toBase_rat, fromBase_rat, changeBase_rat]; field_simp; ring

/-- intervals are linear: no offset is ever applied to them -/
theorem interval_linear (k f a b : Rat) :
    toBase ratS k 0 f (a + b) = toBase ratS k 0 f a + toBase ratS k 0 f b := by
  simp only [toBase_rat]; ring

/-- an interval of 1 °C is 1 K -/
theorem one_celsius_interval (f : Rat) (hf : f ≠ 0) : toBase ratS 1 0 f 1 * f = 1 := by
  rw [toBase_rat]; field_simp; ring

/-- the offset is applied exactly once on the way in and removed exactly once on the way out -/
theorem offset_once (k c f t : Rat) (hk : k ≠ 0) (hf : f ≠ 0) :
    fromBase ratS k c f (toBase ratS k c f t) = t := roundtrip_rat k c f t hk hf

end Uom.C09
