import Uom.Model.Text
import Uom.Gen.Table
import Uom.Model.LabelCheck
import Uom.Gen.Check.Labels
/-!
# C12 — parsing accepts exactly `<number> <unit label>` and inverts formatting

`fromStr units parse mk` is the transcription of `FromStr for Quantity` (src/quantity.rs); `parse` is
the storage type's `from_str` (a parameter), `mk i v = new::<unit i>(v)`.
-/
namespace Uom.C12
open Uom

/-- **success exactly when**: one separator, a parsable number before it, a registered label (blanks
    around it ignored) after it — and then the result is construction from that number in that unit -/
theorem parse_ok_iff {V Q : Type} (units : List Labels) (parse : Bytes → Option V) (mk : Nat → V → Q) (s : Bytes) (q : Q) :
    fromStr units parse mk s = .ok q ↔
      ∃ num rest v i, splitFirstSpace s = some (num, rest) ∧ parse num = some v ∧
        lookupLabel units (trim rest) = some i ∧ q = mk i v := by
  unfold fromStr
  constructor
  · intro h
    split at h
    · exact absurd h (by simp)
    · rename_i num rest hs
      split at h
      · exact absurd h (by simp)
      · rename_i v hv
        split at h
        · rename_i i hi
          refine ⟨num, rest, v, i, hs, hv, hi, ?_⟩
          injection h with h; exact h.symm
        · exact absurd h (by simp)
  · rintro ⟨num, rest, v, i, hs, hv, hi, rfl⟩
    simp [hs, hv, hi]

/-- **error precedence**: no separator beats everything; a bad number beats an unknown unit -/
theorem no_separator_iff {V Q : Type} (units : List Labels) (parse : Bytes → Option V) (mk : Nat → V → Q) (s : Bytes) :
    fromStr units parse mk s = .noSeparator ↔ splitFirstSpace s = none := by
  unfold fromStr
  constructor
  · intro h
    split at h
    · assumption
    · split at h
      · exact absurd h (by simp)
      · split at h <;> exact absurd h (by simp)
  · intro h; simp [h]

theorem bad_number_iff {V Q : Type} (units : List Labels) (parse : Bytes → Option V) (mk : Nat → V → Q) (s : Bytes) :
    fromStr units parse mk s = .valueParseError ↔ ∃ num rest, splitFirstSpace s = some (num, rest) ∧ parse num = none := by
  unfold fromStr
  constructor
  · intro h
    split at h
    · exact absurd h (by simp)
    · rename_i num rest hs
      split at h
      · rename_i hp; exact ⟨num, rest, hs, hp⟩
      · split at h <;> exact absurd h (by simp)
  · rintro ⟨num, rest, hs, hp⟩; simp [hs, hp]

theorem unknown_unit_iff {V Q : Type} (units : List Labels) (parse : Bytes → Option V) (mk : Nat → V → Q) (s : Bytes) :
    fromStr units parse mk s = .unknownUnit ↔
      ∃ num rest v, splitFirstSpace s = some (num, rest) ∧ parse num = some v ∧ lookupLabel units (trim rest) = none := by
  unfold fromStr
  constructor
  · intro h
    split at h
    · exact absurd h (by simp)
    · rename_i num rest hs
      split at h
      · exact absurd h (by simp)
      · rename_i v hv
        split at h
        · exact absurd h (by simp)
        · rename_i hl; exact ⟨num, rest, v, hs, hv, hl⟩
  · rintro ⟨num, rest, v, hs, hv, hl⟩; simp [hs, hv, hl]

/-- the separator is the *first* U+0020: text without one has no separator; the split is exact -/
theorem split_append (a b : Bytes) (ha : 0x20 ∉ a) : splitFirstSpace (a ++ 0x20 :: b) = some (a, b) := by
  induction a with
  | nil => simp [splitFirstSpace]
  | cons x xs ih =>
    have hx : x ≠ 0x20 := fun h => ha (by simp [h])
    have hxs : 0x20 ∉ xs := fun h => ha (List.mem_cons_of_mem _ h)
    simp [splitFirstSpace, hx, ih hxs]

/-- **formatting inverts**: printing a value in a registered unit (either style) and parsing the text
    back selects a unit `j` carrying the printed label and constructs from the printed number — when
    the storage type's own output contains no space and re-parses to the same value, and the label is
    trim-stable.  (Within one quantity a label determines the conversion — `label_functional` below —
    so unit `j` converts like the unit that was printed.) -/
theorem roundtrip {V Q : Type} (units : List Labels) (parse : Bytes → Option V) (mk : Nat → V → Q)
    (fmtV : V → Bytes) (isOne : V → Bool) (u : Labels) (style : Style) (x : V) (j : Nat)
    (hsp : 0x20 ∉ fmtV x) (hparse : parse (fmtV x) = some x)
    (htrim : trim (label u style (isOne x)) = label u style (isOne x))
    (hj : lookupLabel units (label u style (isOne x)) = some j) :
    fromStr units parse mk (fmtArgs fmtV isOne u style x) = .ok (mk j x) := by
  have hs : splitFirstSpace (fmtArgs fmtV isOne u style x) = some (fmtV x, label u style (isOne x)) := by
    unfold fmtArgs
    rw [List.append_assoc]
    exact split_append _ _ hsp
  unfold fromStr
  simp [hs, hparse, htrim, hj]

/-! ### table obligations (kernel-decided per quantity on the table regenerated from src/si;
the per-quantity theorems are generated into `Uom/Gen/Check/L*.lean` so that lake checks them in parallel) -/

/-- **a label never denotes two different conversions**: in every quantity, every label of every unit
    is resolved by the parser's first-match rule to a unit with the same coefficient and offset -/
theorem label_functional : ∀ q ∈ Gen.table, labelsFunctional q = true := by
  intro q hq
  have h := Gen.Check.labels_all q hq
  unfold labelOk at h
  simp only [Bool.and_eq_true] at h
  exact h.1

/-- no label begins or ends with a `White_Space` character, so a printed label survives `trim` -/
theorem labels_edge_clean : ∀ q ∈ Gen.table, labelsEdgeClean q = true := by
  intro q hq
  have h := Gen.Check.labels_all q hq
  unfold labelOk at h
  simp only [Bool.and_eq_true] at h
  exact h.2

/-- non-vacuity: `"1 km"` parses to unit 1 of a two-unit quantity; `"1km"` has no separator;
    `"x km"` is a bad number; `"1 mile"` an unknown unit; `"1 \u{a0}km\u{3000}"` parses (blanks trimmed) -/
def demoUnits : List Labels := [⟨[0x6d], [0x6d], [0x6d]⟩, ⟨[0x6b, 0x6d], [0x6b, 0x6d], [0x6b, 0x6d]⟩]
def demoParse (b : Bytes) : Option Nat := if b = [0x31] then some 1 else none
example : fromStr demoUnits demoParse (fun i v => (i, v)) [0x31, 0x20, 0x6b, 0x6d] = .ok (1, 1) := by decide
example : fromStr demoUnits demoParse (fun i v => (i, v)) [0x31, 0x6b, 0x6d] = .noSeparator := by decide
example : fromStr demoUnits demoParse (fun i v => (i, v)) [0x78, 0x20, 0x6b, 0x6d] = .valueParseError := by decide
example : fromStr demoUnits demoParse (fun i v => (i, v)) [0x31, 0x20, 0x6d, 0x69] = .unknownUnit := by decide
example : fromStr demoUnits demoParse (fun i v => (i, v)) [0x31, 0x20, 0xc2, 0xa0, 0x6b, 0x6d, 0xe3, 0x80, 0x80] = .ok (1, 1) := by decide +kernel

end Uom.C12
