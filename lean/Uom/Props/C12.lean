import Uom.Model.Text
import Uom.Gen.Table
import Uom.Model.LabelCheck
import Uom.Gen.Check.Labels
import Uom.Proofs.TextLemmas
import Uom.Proofs.BodyEq.Text
import Uom.Proofs.BodyEq.FmtGlue
/-!
# C12 — parsing accepts exactly `<number> <unit label>` and inverts formatting

`fromStr units parse mk` is the transcription of `FromStr for Quantity` (src/quantity.rs); `parse` is
the storage type's `from_str` (a parameter), `mk i v = new::<unit i>(v)`.
-/
namespace Uom.C12
open Uom

/-- **success exactly when**: one separator, a parsable number before it, a registered label (blanks
    around it ignored) after it — and then the result is construction from that number in that unit -/
theorem parse_ok_iff {V Q : Type} (units : List Labels) (parse : Bytes → Option V) (mk : Nat → V → Q) (s : Bytes) (q : Q) :
    fromStr units parse mk s = .ok q ↔
      ∃ num rest v i, splitFirstSpace s = some (num, rest) ∧ parse num = some v ∧
        lookupLabel units (trim rest) = some i ∧ q = mk i v := by
  unfold fromStr
  constructor
  · intro h
    split at h
    · exact absurd h (by simp)
    · rename_i num rest hs
      split at h
      · exact absurd h (by simp)
      · rename_i v hv
        split at h
        · rename_i i hi
          refine ⟨num, rest, v, i, hs, hv, hi, ?_⟩
          injection h with h; exact h.symm
        · exact absurd h (by simp)
  · rintro ⟨num, rest, v, i, hs, hv, hi, rfl⟩
    simp [hs, hv, hi]

/-- **error precedence**: no separator beats everything; a bad number beats an unknown unit -/
theorem no_separator_iff {V Q : Type} (units : List Labels) (parse : Bytes → Option V) (mk : Nat → V → Q) (s : Bytes) :
    fromStr units parse mk s = .noSeparator ↔ splitFirstSpace s = none := by
  unfold fromStr
  constructor
  · intro h
    split at h
    · assumption
    · split at h
      · exact absurd h (by simp)
      · split at h <;> exact absurd h (by simp)
  · intro h; simp [h]

theorem bad_number_iff {V Q : Type} (units : List Labels) (parse : Bytes → Option V) (mk : Nat → V → Q) (s : Bytes) :
    fromStr units parse mk s = .valueParseError ↔ ∃ num rest, splitFirstSpace s = some (num, rest) ∧ parse num = none := by
  unfold fromStr
  constructor
  · intro h
    split at h
    · exact absurd h (by simp)
    · rename_i num rest hs
      split at h
      · rename_i hp; exact ⟨num, rest, hs, hp⟩
      · split at h <;> exact absurd h (by simp)
  · rintro ⟨num, rest, hs, hp⟩; simp [hs, hp]

theorem unknown_unit_iff {V Q : Type} (units : List Labels) (parse : Bytes → Option V) (mk : Nat → V → Q) (s : Bytes) :
    fromStr units parse mk s = .unknownUnit ↔
      ∃ num rest v, splitFirstSpace s = some (num, rest) ∧ parse num = some v ∧ lookupLabel units (trim rest) = none := by
  unfold fromStr
  constructor
  · intro h
    split at h
    · exact absurd h (by simp)
    · rename_i num rest hs
      split at h
      · exact absurd h (by simp)
      · rename_i v hv
        split at h
        · exact absurd h (by simp)
        · rename_i hl; exact ⟨num, rest, v, hs, hv, hl⟩
  · rintro ⟨num, rest, v, hs, hv, hl⟩; simp [hs, hv, hl]

/-- the separator is the *first* U+0020: text without one has no separator; the split is exact -/
theorem split_append (a b : Bytes) (ha : 0x20 ∉ a) : splitFirstSpace (a ++ 0x20 :: b) = some (a, b) := by
  induction a with
  | nil => simp [splitFirstSpace]
  | cons x xs ih =>
    have hx : x ≠ 0x20 := fun h => ha (by simp [h])
    have hxs : 0x20 ∉ xs := fun h => ha (List.mem_cons_of_mem _ h)
    simp [splitFirstSpace, hx, ih hxs]

/-- **formatting inverts**: printing a value in a registered unit (either style) and parsing the text
    back selects a unit `j` carrying the printed label and constructs from the printed number — when
    the storage type's own output contains no space and re-parses to the same value, and the label is
    trim-stable.  (Within one quantity a label determines the conversion — `label_functional` below —
    so unit `j` converts like the unit that was printed.) -/
theorem roundtrip {V Q : Type} (units : List Labels) (parse : Bytes → Option V) (mk : Nat → V → Q)
    (fmtV : V → Bytes) (isOne : V → Bool) (u : Labels) (style : Style) (x : V) (j : Nat)
    (hsp : 0x20 ∉ fmtV x) (hparse : parse (fmtV x) = some x)
    (htrim : trim (label u style (isOne x)) = label u style (isOne x))
    (hj : lookupLabel units (label u style (isOne x)) = some j) :
    fromStr units parse mk (fmtArgs fmtV isOne u style x) = .ok (mk j x) := by
  have hs : splitFirstSpace (fmtArgs fmtV isOne u style x) = some (fmtV x, label u style (isOne x)) := by
    unfold fmtArgs
    rw [List.append_assoc]
    exact split_append _ _ hsp
  unfold fromStr
  simp [hs, hparse, htrim, hj]

/-! ### table obligations (kernel-decided per quantity on the table regenerated from src/si;
the per-quantity theorems are generated into `Uom/Gen/Check/L*.lean` so that lake checks them in parallel) -/

/-- **a label never denotes two different conversions**: in every quantity, every label of every unit
    is resolved by the parser's first-match rule to a unit with the same coefficient and offset -/
theorem label_functional : ∀ q ∈ Gen.table, labelsFunctional q = true := by
  intro q hq
  have h := Gen.Check.labels_all q hq
  unfold labelOk at h
  simp only [Bool.and_eq_true] at h
  exact h.1

/-- no label begins or ends with a `White_Space` character, so a printed label survives `trim` -/
theorem labels_edge_clean : ∀ q ∈ Gen.table, labelsEdgeClean q = true := by
  intro q hq
  have h := Gen.Check.labels_all q hq
  unfold labelOk at h
  simp only [Bool.and_eq_true] at h
  exact h.2

/-- every label of the regenerated table is a well-formed byte string (`code < 256^len`), so the
    arithmetic `Str` encoding used by the kernel checks denotes exactly one byte list -/
theorem table_labelsWFb : Gen.table.all QuantityDecl.labelsWFb = true := by decide +kernel

theorem table_labelsWF : ∀ q ∈ Gen.table, q.LabelsWF := by
  intro q hq
  exact (QuantityDecl.labelsWFb_iff q).1 (List.all_eq_true.1 table_labelsWFb q hq)

/-- the label a unit declaration prints, as a `Str` of the table -/
def labelStr (u : UnitDecl) (style : Style) (isOne : Bool) : Str :=
  match style with
  | .abbreviation => u.abbr
  | .description => if isOne then u.sing else u.plur

def unitLabels (u : UnitDecl) : Labels := ⟨u.abbr.bytes, u.sing.bytes, u.plur.bytes⟩

theorem label_eq_labelStr (u : UnitDecl) (style : Style) (b : Bool) :
    label (unitLabels u) style b = (labelStr u style b).bytes := by
  cases style
  · rfl
  · cases b <;> rfl

theorem labelStr_mem (u : UnitDecl) (style : Style) (b : Bool) :
    labelStr u style b = u.abbr ∨ labelStr u style b = u.sing ∨ labelStr u style b = u.plur := by
  cases style
  · exact Or.inl rfl
  · cases b
    · exact Or.inr (Or.inr rfl)
    · exact Or.inr (Or.inl rfl)

/-- **formatting inverts, for the whole registered table** (the two table obligations and the abstract
    round trip composed): for every quantity `q` regenerated from src/si, every unit `u` of it, both
    styles and every value `x` whose own text has no space and re-parses, parsing the formatted text
    succeeds, and the unit `v` the parser selects (index `j`) has *the same coefficient and offset* as
    `u` — so the parsed quantity is the construction of `x` in a unit that converts exactly like `u`. -/
theorem roundtrip_table {V Q : Type} (parse : Bytes → Option V) (mk : Nat → V → Q)
    (fmtV : V → Bytes) (isOne : V → Bool) (q : QuantityDecl) (hq : q ∈ Gen.table)
    (u : UnitDecl) (hu : u ∈ q.units) (style : Style) (x : V)
    (hsp : 0x20 ∉ fmtV x) (hparse : parse (fmtV x) = some x) :
    ∃ j v, q.units[j]? = some v ∧ sameConversion u v = true ∧
      fromStr q.labels parse mk (fmtArgs fmtV isOne (unitLabels u) style x) = .ok (mk j x) := by
  have hwf := table_labelsWF q hq
  have hfun := label_functional q hq
  have hclean := labels_edge_clean q hq
  -- the printed label as a `Str`
  let l := labelStr u style (isOne x)
  have hl_mem : l = u.abbr ∨ l = u.sing ∨ l = u.plur := labelStr_mem u style (isOne x)
  have hlwf : l.WF := by
    have := hwf u hu
    rcases hl_mem with h | h | h <;> rw [h] <;> simp [this.1, this.2.1, this.2.2]
  have hlclean : l.edgeClean = true := by
    have h := List.all_eq_true.1 hclean u hu
    simp only [Bool.and_eq_true] at h
    rcases hl_mem with e | e | e <;> rw [e] <;> simp [h.1.1, h.1.2, h.2]
  -- functional: the first match has the same conversion
  have hf := List.all_eq_true.1 hfun u hu
  have hf2 : ∀ s ∈ [u.abbr, u.sing, u.plur], (match lookupStr q s with | some v => sameConversion u v | none => false) = true :=
    List.all_eq_true.1 hf
  have hfl := hf2 l (by rcases hl_mem with e | e | e <;> simp [e])
  cases hls : lookupStr q l with
  | none => rw [hls] at hfl; exact absurd hfl (by simp)
  | some v =>
    rw [hls] at hfl
    have hbind := lookupStr_eq_lookupLabel_bind hwf hlwf
    rw [hls] at hbind
    cases hlk : lookupLabel q.labels l.bytes with
    | none => rw [hlk] at hbind; exact absurd hbind (by simp)
    | some j =>
      rw [hlk] at hbind
      refine ⟨j, v, by simpa using hbind.symm, hfl, ?_⟩
      have hlab : label (unitLabels u) style (isOne x) = l.bytes := label_eq_labelStr u style (isOne x)
      exact roundtrip q.labels parse mk fmtV isOne (unitLabels u) style x j hsp hparse
        (by rw [hlab]; exact Str.edgeClean_trim hlclean) (by rw [hlab]; exact hlk)

/-- non-vacuity: `"1 km"` parses to unit 1 of a two-unit quantity; `"1km"` has no separator;
    `"x km"` is a bad number; `"1 mile"` an unknown unit; `"1 \u{a0}km\u{3000}"` parses (blanks trimmed) -/
def demoUnits : List Labels := [⟨[0x6d], [0x6d], [0x6d]⟩, ⟨[0x6b, 0x6d], [0x6b, 0x6d], [0x6b, 0x6d]⟩]
def demoParse (b : Bytes) : Option Nat := if b = [0x31] then some 1 else none
example : fromStr demoUnits demoParse (fun i v => (i, v)) [0x31, 0x20, 0x6b, 0x6d] = .ok (1, 1) := by decide
example : fromStr demoUnits demoParse (fun i v => (i, v)) [0x31, 0x6b, 0x6d] = .noSeparator := by decide
example : fromStr demoUnits demoParse (fun i v => (i, v)) [0x78, 0x20, 0x6b, 0x6d] = .valueParseError := by decide
example : fromStr demoUnits demoParse (fun i v => (i, v)) [0x31, 0x20, 0x6d, 0x69] = .unknownUnit := by decide
example : fromStr demoUnits demoParse (fun i v => (i, v)) [0x31, 0x20, 0xc2, 0xa0, 0x6b, 0x6d, 0xe3, 0x80, 0x80] = .ok (1, 1) := by decide +kernel

/-! ### tie to the source: `from_str` regenerated from /repo/src/quantity.rs on this run

`Gen.RxBody.quantity_FromStr_for_quantity_from_str` is what the translator read from the Rust source just
now (splitn / next / unwrap / ok_or / `?` / parse / map_err / trim / the `match` over the unit repetition);
`Rx.run` evaluates it.  The theorems below state the property's clauses *for the regenerated body*. -/
section SourceTieRx
open Uom.Rx Uom.Gen.RxBody Uom.BodyEq.Text

/-- the regenerated body computes the model's `fromStr`, for every input -/
theorem src_from_str {V Q : Type} (units : List Labels) (parse : Bytes → Option V) (mk : Nat → V → Q) (s : Bytes) :
    run (envFromStr units parse mk) quantity_FromStr_for_quantity_from_str [.str s] =
      (embedParse (fromStr units parse mk s), []) := from_str_eq units parse mk s

/-- **the source succeeds exactly when** the text is a parsable number, one U+0020, and (blanks ignored) a
    registered label — and then returns `Self::new::<unit>(number)` -/
theorem src_from_str_ok_iff {V Q : Type} (units : List Labels) (parse : Bytes → Option V) (mk : Nat → V → Q)
    (s : Bytes) (q : Q) :
    (run (envFromStr units parse mk) quantity_FromStr_for_quantity_from_str [.str s]).1 =
        .val (.ctor1 cOk (.host (.q q))) ↔
      ∃ num rest v i, splitFirstSpace s = some (num, rest) ∧ parse num = some v ∧
        lookupLabel units (trim rest) = some i ∧ q = mk i v := by
  rw [from_str_eq, ← parse_ok_iff]
  cases h : fromStr units parse mk s <;> simp [embedParse, cOk, cErr]

/-- **the source's error precedence**: `NoSeparator` iff there is no U+0020 at all -/
theorem src_from_str_no_separator_iff {V Q : Type} (units : List Labels) (parse : Bytes → Option V)
    (mk : Nat → V → Q) (s : Bytes) :
    (run (envFromStr units parse mk) quantity_FromStr_for_quantity_from_str [.str s]).1 =
        .val (.ctor1 cErr (.ctor0 c_NoSeparator)) ↔ splitFirstSpace s = none := by
  rw [from_str_eq, ← no_separator_iff units parse mk]
  cases h : fromStr units parse mk s <;>
    simp [embedParse, cOk, cErr, c_NoSeparator, c_ValueParseError, c_UnknownUnit]

/-- the source never panics and never leaves the evaluator's subset: it always returns `Ok` or `Err` -/
theorem src_from_str_total {V Q : Type} (units : List Labels) (parse : Bytes → Option V) (mk : Nat → V → Q)
    (s : Bytes) :
    ∃ c x, (run (envFromStr units parse mk) quantity_FromStr_for_quantity_from_str [.str s]).1 = .val (.ctor1 c x) := by
  rw [from_str_eq]
  cases fromStr units parse mk s <;> exact ⟨_, _, rfl⟩

/-- **format-then-parse, on the source**: for every quantity regenerated from src/si, every unit, both styles
    and every stored value whose converted value prints without a space and re-parses: the bytes the
    regenerated `QuantityArguments::fmt` writes, handed to the regenerated `from_str`, give `Ok` of the
    construction of that value in a unit `v` with the same coefficient and offset as the unit printed. -/
theorem src_roundtrip_table {V Q : Type} (parse : Bytes → Option V) (mk : Nat → V → Q) (fromB : V → V)
    (fmtV : V → Bytes) (isOne : V → Bool) (q : QuantityDecl) (hq : q ∈ Gen.table)
    (u : UnitDecl) (hu : u ∈ q.units) (style : Style) (x : V)
    (hsp : 0x20 ∉ fmtV (fromB x)) (hparse : parse (fmtV (fromB x)) = some (fromB x)) :
    ∃ j v, q.units[j]? = some v ∧ sameConversion u v = true ∧
      (run (envFromStr q.labels parse mk) quantity_FromStr_for_quantity_from_str
        [.str (run (envFmt fromB (fun v => some (fmtV v)) isOne (unitLabels u)) system_style_for_QuantityArguments_fmt
                [.host (.qa style x), .fmtr]).2]).1 = .val (.ctor1 cOk (.host (.q (mk j (fromB x))))) := by
  obtain ⟨j, v, hj, hsame, hrt⟩ := roundtrip_table parse mk fmtV isOne q hq u hu style (fromB x) hsp hparse
  refine ⟨j, v, hj, hsame, ?_⟩
  rw [quantity_arguments_fmt_eq, from_str_eq, hrt]
  rfl

/-- the three error variants `from_str` can return are three different values and each displays its own message
    (`Display for ParseQuantityError`, regenerated from src/lib.rs) -/
theorem src_parse_error_display :
    (c_NoSeparator ≠ c_ValueParseError ∧ c_NoSeparator ≠ c_UnknownUnit ∧ c_ValueParseError ≠ c_UnknownUnit) ∧
    run Uom.BodyEq.FmtGlue.envNone lib_Display_for_ParseQuantityError_fmt [.ctor0 c_NoSeparator, .fmtr] =
      (.val (.ctor1 cOk .unit), Uom.BodyEq.FmtGlue.ascii "no space between quantity and units") ∧
    run Uom.BodyEq.FmtGlue.envNone lib_Display_for_ParseQuantityError_fmt [.ctor0 c_ValueParseError, .fmtr] =
      (.val (.ctor1 cOk .unit), Uom.BodyEq.FmtGlue.ascii "error parsing unit quantity") ∧
    run Uom.BodyEq.FmtGlue.envNone lib_Display_for_ParseQuantityError_fmt [.ctor0 c_UnknownUnit, .fmtr] =
      (.val (.ctor1 cOk .unit), Uom.BodyEq.FmtGlue.ascii "unrecognized unit of measure") :=
  ⟨Uom.BodyEq.FmtGlue.parse_error_ctors_distinct, Uom.BodyEq.FmtGlue.parse_error_display⟩

end SourceTieRx

end Uom.C12
