import Uom.Props.C01
import Uom.Props.C03
import Uom.Props.C06
import Uom.Props.C08
import Uom.Props.C11
import Uom.Props.C12
import Uom.Model.LabelCheck
import Uom.Gen.Usr
/-!
# C19 — systems, quantities and units defined via the public macros behave like the SI

None of the algebraic theorems of C01, C03, C06, C08, C11, C12 mentions the SI: they are stated for any
number of base quantities, any exponent vector, any coefficient / offset / base factor and any label
table, i.e. for whatever the macros are instantiated with.  This file (a) re-exports them at the
arity of the harness-declared 4-base system as a reminder that the instantiation is literal, and (b)
decides the table obligations on the table the translator regenerates from the harness's own
`system!` / `quantity!` / `unit!` invocations (`Gen.Usr`), which the exhaustive registry diff ties to
what the macros really produced.
-/
namespace Uom.C19
open Uom

/-- dimension algebra at arity 4 (any arity: `C01.mul_dim` quantifies over the list length) -/
theorem mul_dim_any_arity (l r : QTy) (i : Nat) (hl : i < l.dim.length) (hr : i < r.dim.length) :
    (outMul l r).dim[i]? = some (l.dim[i] + r.dim[i]) := (C01.mul_dim l r i hl hr).1

/-- conversion fidelity: exact storage, any coefficient, offset and base factor -/
theorem conversion_exact (coef c f v : Rat) (hc : coef ≠ 0) (hf : f ≠ 0) :
    toBase ratS coef c f v = (v + c) * coef / f ∧ fromBase ratS coef c f (toBase ratS coef c f v) = v :=
  ⟨C08.new_exact coef c f v, C08.roundtrip coef c f v hc hf⟩

/-- float identity for a base unit used as its own base, whatever its coefficient (e.g. `kilospan`) -/
theorem base_unit_identity (f : Fmt) (hf : f.WF) (v c : Fl) (hv : Fl.Canonical f v) (hfin : c.isFinite = true) (hnz : c.isZero = false) :
    toBase (flS f) c (Fl.zero f true) c v = v := C03.new_id f hf v c hv hfin hnz

/-- base-unit independence with a base factor built from *four* coefficients -/
theorem base_factor_four (u1 u2 u3 u4 : Rat) (d e : List Int) (hlen : d.length = e.length)
    (h : ∀ u ∈ [u1, u2, u3, u4], u ≠ 0) :
    baseFac [u1, u2, u3, u4] (List.zipWith (· + ·) d e) = baseFac [u1, u2, u3, u4] d * baseFac [u1, u2, u3, u4] e :=
  C06.baseFactor_add _ d e hlen h

/-! ### the harness-declared system (regenerated from /verif/harness/src/bin/usr.rs on every run) -/

/-- labels of the user system: functional and trim-stable, like the SI's -/
theorem usr_labels_ok : (Gen.Usr.table.all labelOk) = true := by decide +kernel

theorem usr_added_labels_ok : (Gen.Usr.added.all labelsEdgeClean) = true := by decide +kernel

/-- its base units have coefficient exactly 1 and no offset -/
theorem usr_base_units_one :
    (Gen.Usr.baseUnits.all fun b =>
      match findQuantity Gen.Usr.table b.1 with
      | none => false
      | some q => match q.findUnit b.2 with
        | none => false
        | some u => u.cons.isNone && decide (u.coef.exact = 1)) = true := by decide +kernel

/-- its derived quantities obey the dimension algebra: pace = extent / tick, vigor = heft · pace² -/
theorem usr_identities :
    outDiv (C01.ty Gen.Usr.q_extent) (C01.ty Gen.Usr.q_tick) = C01.ty Gen.Usr.q_pace ∧
    outMul (C01.ty Gen.Usr.q_heft) (outPowi (C01.ty Gen.Usr.q_pace) 2) = C01.ty Gen.Usr.q_vigor ∧
    (Gen.Usr.table.all fun q => q.dim.length == 4) = true := by decide +kernel

/-- offset units of the user system: `cgrade` and `fgrade` carry the declared offsets, nothing else does -/
theorem usr_offsets :
    (Gen.Usr.table.all fun q => q.units.all fun u =>
      u.cons.isNone || u.name == ⟨6, 0x636772616465⟩ || u.name == ⟨6, 0x666772616465⟩) = true := by decide +kernel

end Uom.C19
