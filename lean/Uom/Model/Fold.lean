import Uom.Model.Conv
import Uom.Model.Num
/-!
# Folded normal forms (C04): what the optimiser may legally reduce a conversion to

For float storage, `x + (−0.0) = x`, `x − (+0.0) = x`, `x · 1 = x`, `x / 1 = x` (Proofs/FlIdentity), and
every operand other than the value is a compile-time constant, so `to_base` / `from_base` /
`change_base` reduce to the shapes below with the constants folded (in the model's arithmetic, which
is what LLVM's constant folder computes: IEEE round-to-nearest).
-/
namespace Uom

inductive Shape where
  | id                          -- v
  | mul (k : Fl)                -- v * k
  | div (k : Fl)                -- v / k
  | mulDiv (c f : Fl)           -- (v * c) / f
  | add (c : Fl)                -- v + c
  | sub (c : Fl)                -- v - c
  | addMul (c k : Fl)           -- (v + c) * k
  | addMulDiv (c k f : Fl)      -- ((v + c) * k) / f
  | mulSub (k c : Fl)           -- v * k - c
  | divSub (k c : Fl)           -- v / k - c
deriving Repr

/-- the constant is the canonical `1.0` of the format -/
def isOneFl (f : Fmt) (x : Fl) : Bool := decide (x = Fl.one f)

/-- folded form of `to_base` -/
def foldNew (f : Fmt) (coef consA fac : Fl) : Shape :=
  let noOffset := consA.isZero
  if Fl.ge coef fac then
    let k := Fl.div f coef fac
    if noOffset then (if isOneFl f k then .id else .mul k) else (if isOneFl f k then .add consA else .addMul consA k)
  else if isOneFl f fac then
    (if noOffset then .mul coef else .addMul consA coef)
  else
    (if noOffset then .mulDiv coef fac else .addMulDiv consA coef fac)

/-- folded form of `from_base` -/
def foldGet (f : Fmt) (coef consS fac : Fl) : Shape :=
  let noOffset := consS.isZero
  if Fl.lt coef fac then
    let k := Fl.div f fac coef
    if noOffset then .mul k else .mulSub k consS
  else
    let k := Fl.div f coef fac
    if noOffset then (if isOneFl f k then .id else .div k) else (if isOneFl f k then .sub consS else .divSub k consS)

/-- folded form of `change_base` -/
def foldChange (f : Fmt) (l r : Fl) : Shape :=
  if Fl.ge r l then
    let k := Fl.div f r l
    if isOneFl f k then .id else .mul k
  else .div (Fl.div f l r)

/-- evaluation of a shape (the semantics of the reference function) -/
def Shape.eval (f : Fmt) (s : Shape) (v : Fl) : Fl :=
  match s with
  | .id => v
  | .mul k => Fl.mul f v k
  | .div k => Fl.div f v k
  | .mulDiv c d => Fl.div f (Fl.mul f v c) d
  | .add c => Fl.add f v c
  | .sub c => Fl.sub f v c
  | .addMul c k => Fl.mul f (Fl.add f v c) k
  | .addMulDiv c k d => Fl.div f (Fl.mul f (Fl.add f v c) k) d
  | .mulSub k c => Fl.sub f (Fl.mul f v k) c
  | .divSub k c => Fl.sub f (Fl.div f v k) c

/-- Rust source of the reference expression over the variable `v` -/
def Shape.rust (f : Fmt) (s : Shape) : String :=
  let ty := if f.p == 53 then "f64" else "f32"
  let c (x : Fl) : String := s!"{ty}::from_bits(0x{flHex f x})"
  match s with
  | .id => "v"
  | .mul k => s!"v * {c k}"
  | .div k => s!"v / {c k}"
  | .mulDiv a d => s!"(v * {c a}) / {c d}"
  | .add a => s!"v + {c a}"
  | .sub a => s!"v - {c a}"
  | .addMul a k => s!"(v + {c a}) * {c k}"
  | .addMulDiv a k d => s!"((v + {c a}) * {c k}) / {c d}"
  | .mulSub k a => s!"v * {c k} - {c a}"
  | .divSub k a => s!"v / {c k} - {c a}"

end Uom
