import Uom.Model.Oracle
import Uom.Model.Ops
/-!
# Oracles for the operator properties (C06, C10, C15) on float storage, in exact arithmetic
-/
namespace Uom

/-- did `change_base(l, r, b)` stay in the normal range (the branch the code takes) -/
def changeBaseNormal (f : Fmt) (l r b : Fl) : Bool :=
  let S := flS f
  if S.ge r l then
    let k := S.div r l
    Fl.isNormal f k && okMul f b k (S.mul b k)
  else
    let k := S.div l r
    let t := S.div b k
    Fl.isNormal f k && (Fl.isNormal f t || (t.isZero && b.isZero))

def parseOrd? : String → Option (Option Int)
  | "none" => some none | "lt" => some (some (-1)) | "eq" => some (some 0) | "gt" => some (some 1)
  | _ => none

/-- C06/C10 oracle for a binary form on floats: `a ⊙ b` with `b` stored in other base units must be
    `A ⊙ B·R/L` (exact reals) within a few `u`; comparisons must agree with the exact order whenever
    the magnitudes differ by more than `4u` -/
def oracleBinFl (f : Fmt) (op : RawBin) (l r a b : Fl) (obs : String) : Verdict :=
  if !(a.isFinite && b.isFinite && l.isFinite && r.isFinite) || l.isZero || r.isZero then .guard "non-finite"
  else if !(changeBaseNormal f l r b) then .guard "overflow/underflow"
  else
    let u := uro f
    let A := a.toRat
    let B := b.toRat * r.toRat / l.toRat
    let same := Fl.cmp l r == some 0
    let val (exact tol : Rat) (needNormal : Bool) : Verdict :=
      match flOf? f obs with
      | none => .fail "result is not a value"
      | some o =>
        -- (the escape must allow for the tolerance: `change_base(b)` carries two roundings, so the float
        --  operation can overflow while the exact result is still just below MAX — Proofs/OpsOracleSound.lean
        --  has the kernel-checked witnesses for the earlier `ratAbs exact ≥ MAX`)
        if !o.isFinite then (if ratAbs exact + tol ≥ Fl.toRat (Fl.fin false (2 ^ f.p - 1) f.emax) then .guard "overflow/underflow" else .fail "non-finite result")
        else if needNormal && !(Fl.isNormal f o || (o.isZero && exact = 0)) then .guard "overflow/underflow"
        else if ratAbs (o.toRat - exact) ≤ tol then .pass
        else .fail "result is more than a few u away from the exact physical result"
    let cmpv (expect : Int → Bool) : Verdict :=
      if !same && ratAbs (A - B) ≤ 4 * u * ratMax (ratAbs A) (ratAbs B) then .guard "magnitudes within 4u"
      else
        let c : Int := if A < B then -1 else if A = B then 0 else 1
        let e := if expect c then "1" else "0"
        if obs == e then .pass else .fail "comparison disagrees with the order of the physical magnitudes"
    match op with
    | .add => val (A + B) (u * (3 * ratAbs B + 2 * ratAbs (A + B))) false
    | .sub => val (A - B) (u * (3 * ratAbs B + 2 * ratAbs (A - B))) false
    | .mul => val (A * B) (4 * u * ratAbs (A * B)) true
    | .div => if B = 0 then .guard "division by zero" else val (A / B) (4 * u * ratAbs (A / B)) true
    | .rem => .guard "remainder is discontinuous"
    | .eq => cmpv (· == 0)
    | .ne => cmpv (· != 0)
    | .lt => cmpv (· == -1)
    | .le => cmpv (· != 1)
    | .gt => cmpv (· == 1)
    | .ge => cmpv (· != -1)
    | .pcmp =>
      if !same && ratAbs (A - B) ≤ 4 * u * ratMax (ratAbs A) (ratAbs B) then .guard "magnitudes within 4u"
      else
        let c : Int := if A < B then -1 else if A = B then 0 else 1
        if parseOrd? obs == some (some c) then .pass else .fail "partial_cmp disagrees with the order of the physical magnitudes"

def oracleMulAdd (f : Fmt) (la ra lb rb x a b obs : Fl) : Verdict :=
  if !(x.isFinite && a.isFinite && b.isFinite && la.isFinite && ra.isFinite && lb.isFinite && rb.isFinite)
      || la.isZero || ra.isZero || lb.isZero || rb.isZero then .guard "non-finite"
  else if !(changeBaseNormal f la ra a && changeBaseNormal f lb rb b) then .guard "overflow/underflow"
  else if !obs.isFinite then .guard "overflow/underflow"
  else
    let u := uro f
    let P := x.toRat * (a.toRat * ra.toRat / la.toRat)
    let B := b.toRat * rb.toRat / lb.toRat
    let tol := u * (3 * ratAbs P + 3 * ratAbs B + 2 * ratAbs (P + B))
    if !(Fl.isNormal f obs) && !(obs.isZero) then .guard "overflow/underflow"
    else if ratAbs (obs.toRat - (P + B)) ≤ tol then .pass
    -- a zero result may be an underflow of `x·a + b` (a relative tolerance cannot cover it when the stored
    -- addend is zero): guarded when the exact value is within the tolerance of half the least subnormal
    -- (Proofs/MoreOracleSound.lean: witnesses that the oracle without this clause rejected the model; it
    -- also fired on the unchanged tree in a thorough run — a false alarm, see DESIGN §0.3)
    else if obs.isZero && 2 * ratAbs (P + B) ≤ 2 * tol + Fl.toRat (Fl.fin false 1 f.emin) then
      .guard "overflow/underflow"
    else .fail "mul_add is more than a few u away from x·a + b in the base units of x"

/-- `a.hypot(b)` with `b` in other base units: `obs² ≈ A² + (B·R/L)²` -/
def oracleHypot (f : Fmt) (l r a b obs : Fl) : Verdict :=
  if !(a.isFinite && b.isFinite && l.isFinite && r.isFinite) || l.isZero || r.isZero then .guard "non-finite"
  else if !(changeBaseNormal f l r b) then .guard "overflow/underflow"
  else if !obs.isFinite then .guard "overflow/underflow"
  else
    let u := uro f
    let A := a.toRat
    let B := b.toRat * r.toRat / l.toRat
    let s := A * A + B * B
    let o := obs.toRat
    if o < 0 then .fail "negative hypotenuse"
    else if !(Fl.isNormal f obs) && !(obs.isZero && s = 0) then .guard "overflow/underflow"
    else if ratAbs (o * o - s) ≤ 12 * u * s then .pass
    else .fail "hypot² is more than 12u away from a² + (b·R/L)²"

/-- C15: kind conversion keeps the magnitude: bit-identical for identical base units, else `a·R/L` within 3u -/
def oracleFromFl (f : Fmt) (sameBase : Bool) (l r a obs : Fl) : Verdict :=
  if sameBase then
    if Fl.toBits f obs = Fl.toBits f a then .pass else .fail "kind conversion between identical base units changed the stored value"
  else if !(a.isFinite && l.isFinite && r.isFinite) || l.isZero || r.isZero then .guard "non-finite"
  else if !(changeBaseNormal f l r a) then .guard "overflow/underflow"
  else if !obs.isFinite then .fail "non-finite result"
  else
    let exact := a.toRat * r.toRat / l.toRat
    if ratAbs (obs.toRat - exact) ≤ 3 * uro f * ratAbs exact then .pass
    else .fail "kind conversion is more than 3u away from a·R/L"

end Uom
