import Uom.Model.Ops
/-!
# Function bodies regenerated from the Rust source, and what they mean

`translate/bodies.py` parses the body of every `fn` of src/system.rs, src/quantity.rs and the special
impls of src/si into the small expression language `BExpr` below (file `Uom/Gen/Bodies.lean`,
regenerated on every run).  `eval` gives such an expression its meaning over an arbitrary storage type
`N : NumTy`, *using only the primitive operations of the storage algebra* (`S.add`, `S.mul`, `S.ge`,
`rawBin`, …) — it knows nothing about `toBase`, `binOpOn` and the other hand-written model functions
except where the source itself calls `to_base` / `from_base` / `change_base` by name.
`Uom/Proofs/BodyEq.lean` then proves, for every `N` and every input, that the regenerated bodies
evaluate to the hand-written model (`gen_eq_hand` theorems): a source edit that changes what a body
computes breaks one of those proofs on the next run.
-/
namespace Uom.Body
open Uom

/-- type parameters that matter to the semantics (which base units / dimension a conversion is over) -/
inductive TyP where
  | D | Dl | Dr | Da | Dsum | Dimension | Dexplicit | U | Ul | Ur | Ua | Ub | V | N | E | other
deriving DecidableEq, Repr, Inhabited

/-- functions / paths the evaluator gives a meaning to; anything else is `other code` (uninterpreted,
    `code` is an index into the generated name table) -/
inductive Fn where
  | nCoefficient | nConstantAdd | nConstantSub
  | toBase (d u n : TyP) | fromBase (d u n : TyP) | changeBase (d l r : TyP)
  | selfNew (n : TyP)
  | other (code : Nat)
deriving DecidableEq, Repr, Inhabited

inductive BOp where
  | add | sub | mul | div | rem | lt | le | gt | ge | eq | ne
deriving DecidableEq, Repr, Inhabited

/-- methods: the two conversion-factor methods, `get::<N>()`, the comparison methods of `PartialOrd`
    / `PartialEq`, and everything else (`fwd code`: a method of the storage type the quantity forwards to) -/
inductive Meth where
  | conversion | value | get (n : TyP)
  | lt | le | gt | ge | eq | ne | partialCmp
  | fwd (code : Nat)
deriving DecidableEq, Repr, Inhabited

inductive BExpr where
  | var (i : Nat)
  | lit (n : Nat)
  | fn0 (f : Fn)
  | fn1 (f : Fn) (a : BExpr)
  | fn2 (f : Fn) (a b : BExpr)
  | m0 (r : BExpr) (m : Meth)
  | m1 (r : BExpr) (m : Meth) (a : BExpr)
  | m2 (r : BExpr) (m : Meth) (a b : BExpr)
  /-- the `.value` field -/
  | valueOf (r : BExpr)
  | bin (op : BOp) (a b : BExpr)
  /-- `a op= b` -/
  | assign (op : BOp) (a b : BExpr)
  | neg (a : BExpr)
  /-- `&a`, `*a`: transparent -/
  | ref (a : BExpr)
  | ite (c t e : BExpr)
  | letIn (i : Nat) (v body : BExpr)
  | seq (a b : BExpr)
  /-- `Quantity { dimension: PhantomData, units: PhantomData, value }` (also `..self` forms) -/
  | quantity (value : BExpr)
  /-- `V::coefficient() $(* U::$name::coefficient().powi(D::$symbol::to_i32()))+` -/
  | baseFactor (u d : TyP)
  | opaque (code : Nat)
deriving Repr, Inhabited

/-- a translated function: number of parameters (variables `0 … params-1`), its body -/
structure FnDef where
  params : Nat
  body : BExpr
deriving Repr, Inhabited

/-! ## meaning -/

/-- values: a stored-type computation (value, boolean or ordering; possibly a panic), a conversion
    factor, a boolean of a factor comparison, a quantity (its `value` field), unit, or "no meaning" -/
inductive Val (N : NumTy) where
  | v (x : Tri (Res N.S.V))
  | t (x : N.S.T)
  | b (x : Bool)
  | q (x : Tri (Res N.S.V))
  | unit
  | bad

structure Env (N : NumTy) where
  /-- `N::coefficient()`, `N::constant(Add)`, `N::constant(Sub)` -/
  nCoef : N.S.T
  nConsA : N.S.T
  nConsS : N.S.T
  /-- base factor of a units parameter over a dimension parameter -/
  bf : TyP → TyP → N.S.T
  /-- uninterpreted functions and forwarded storage-type methods -/
  ext : Nat → List (Val N) → Val N
  fwd : Nat → List (Val N) → Val N

def BOp.raw? : BOp → Option RawBin
  | .add => some .add | .sub => some .sub | .mul => some .mul | .div => some .div | .rem => some .rem
  | .lt => some .lt | .le => some .le | .gt => some .gt | .ge => some .ge | .eq => some .eq | .ne => some .ne

/-- a binary operation of the stored type on two computations -/
def liftBin (N : NumTy) (op : RawBin) (x y : Tri (Res N.S.V)) : Tri (Res N.S.V) :=
  match x, y with
  | .ok (.val a), .ok (.val b) => rawBin N op a b
  | .panic, _ => .panic
  | _, .panic => .panic
  | _, _ => .unsure

def liftNeg (N : NumTy) (x : Tri (Res N.S.V)) : Tri (Res N.S.V) :=
  match x with
  | .ok (.val a) => (N.neg a).bind fun v => .ok (.val v)
  | .panic => .panic
  | _ => .unsure

/-- conversion-factor arithmetic: only the operations the storage algebra has -/
def tBin (N : NumTy) (op : BOp) (x y : N.S.T) : Val N :=
  match op with
  | .add => .t (N.S.add x y)
  | .sub => .t (N.S.sub x y)
  | .mul => .t (N.S.mul x y)
  | .div => .t (N.S.div x y)
  | .lt => .b (N.S.lt x y)
  | .ge => .b (N.S.ge x y)
  | _ => .bad

def lookup {N : NumTy} (vars : List (Nat × Val N)) (i : Nat) : Val N :=
  match vars with
  | [] => .bad
  | (j, x) :: rest => if i = j then x else lookup rest i

def valBin (N : NumTy) (op : BOp) (x y : Val N) : Val N :=
  match x, y with
  | .t a, .t b => tBin N op a b
  | .v a, .v b => match op.raw? with
    | some r => .v (liftBin N r a b)
    | none => .bad
  | _, _ => .bad

def methCmp (N : NumTy) (op : RawBin) (x y : Val N) : Val N :=
  match x, y with
  | .v a, .v b => .v (liftBin N op a b)
  | _, _ => .bad

/-- wrap a stored-type computation into a quantity (`Quantity { …, value }`) -/
def Val.asQuantity {N : NumTy} : Val N → Val N
  | .v r => .q r
  | _ => .bad

/-- the `.value` field of a quantity -/
def Val.field {N : NumTy} : Val N → Val N
  | .q x => .v x
  | _ => .bad

def Val.negate {N : NumTy} : Val N → Val N
  | .v x => .v (liftNeg N x)
  | _ => .bad

/-- `to_base` / `from_base` / `change_base` called by name from another body: their (separately
    proved equal) hand-written models -/
def callConv (N : NumTy) (env : Env N) (f : Fn) (x : Val N) : Val N :=
  match f, x with
  | .toBase d u _, .v (.ok (.val a)) => .v (.ok (.val (toBase N.S env.nCoef env.nConsA (env.bf u d) a)))
  | .fromBase d u _, .v (.ok (.val a)) => .v (.ok (.val (fromBase N.S env.nCoef env.nConsS (env.bf u d) a)))
  | .changeBase d l r, .v (.ok (.val a)) => .v (.ok (.val (changeBase N.S (env.bf l d) (env.bf r d) a)))
  | .selfNew _, .v (.ok (.val a)) =>
      .q (.ok (.val (toBase N.S env.nCoef env.nConsA (env.bf .U .Dimension) a)))
  | .other c, x => env.ext c [x]
  | _, _ => .bad

def eval (N : NumTy) (env : Env N) (vars : List (Nat × Val N)) : BExpr → Val N
  | .var i => lookup vars i
  | .lit _ => .bad
  | .fn0 .nCoefficient => .t env.nCoef
  | .fn0 .nConstantAdd => .t env.nConsA
  | .fn0 .nConstantSub => .t env.nConsS
  | .fn0 (.other c) => env.ext c []
  | .fn0 _ => .bad
  | .fn1 f a => callConv N env f (eval N env vars a)
  | .fn2 (.other c) a b => env.ext c [eval N env vars a, eval N env vars b]
  | .fn2 _ _ _ => .bad
  | .m0 r .conversion => match eval N env vars r with
    | .v (.ok (.val a)) => .t (N.S.conv a)
    | _ => .bad
  | .m0 r .value => match eval N env vars r with
    | .t x => .v (.ok (.val (N.S.value x)))
    | _ => .bad
  | .m0 r (.get _) => match eval N env vars r with
    | .q (.ok (.val a)) => .v (.ok (.val (fromBase N.S env.nCoef env.nConsS (env.bf .U .Dimension) a)))
    | _ => .bad
  | .m0 r (.fwd c) => env.fwd c [eval N env vars r]
  | .m0 _ _ => .bad
  | .m1 r .lt a => methCmp N .lt (eval N env vars r) (eval N env vars a)
  | .m1 r .le a => methCmp N .le (eval N env vars r) (eval N env vars a)
  | .m1 r .gt a => methCmp N .gt (eval N env vars r) (eval N env vars a)
  | .m1 r .ge a => methCmp N .ge (eval N env vars r) (eval N env vars a)
  | .m1 r .eq a => methCmp N .eq (eval N env vars r) (eval N env vars a)
  | .m1 r .ne a => methCmp N .ne (eval N env vars r) (eval N env vars a)
  | .m1 r .partialCmp a => methCmp N .pcmp (eval N env vars r) (eval N env vars a)
  | .m1 r (.fwd c) a => env.fwd c [eval N env vars r, eval N env vars a]
  | .m1 _ _ _ => .bad
  | .m2 r (.fwd c) a b => env.fwd c [eval N env vars r, eval N env vars a, eval N env vars b]
  | .m2 _ _ _ _ => .bad
  | .valueOf r => (eval N env vars r).field
  | .bin op a b => valBin N op (eval N env vars a) (eval N env vars b)
  | .assign op a b => valBin N op (eval N env vars a) (eval N env vars b)
  | .neg a => (eval N env vars a).negate
  | .ref a => eval N env vars a
  | .ite c t e => match eval N env vars c with
    | .b true => eval N env vars t
    | .b false => eval N env vars e
    | _ => .bad
  | .letIn i v body => eval N env ((i, eval N env vars v) :: vars) body
  | .seq _ b => eval N env vars b
  | .quantity x => (eval N env vars x).asQuantity
  | .baseFactor u d => .t (env.bf u d)
  | .opaque _ => .bad

/-- run a function on its arguments -/
def run (N : NumTy) (env : Env N) (f : FnDef) (args : List (Val N)) : Val N :=
  eval N env ((List.range f.params).zip args) f.body

/-- a stored value as an argument -/
def argV {N : NumTy} (a : N.S.V) : Val N := .v (.ok (.val a))
/-- a quantity as an argument -/
def argQ {N : NumTy} (a : N.S.V) : Val N := .q (.ok (.val a))

end Uom.Body
