import Uom.Model.Table
import Uom.Model.SoftFloat
/-!
# Float value of a unit's coefficient / constant expression

`unit!(@coefficient …)` is evaluated *in the storage type*: every literal is parsed to the nearest
f32 / f64 and the operators are the IEEE operations of that type, in source order.
-/
namespace Uom

def CExpr.evalFl (f : Fmt) : CExpr → Fl
  | .lit m e => Fl.ofDecimal f m e
  | .neg a => Fl.neg (a.evalFl f)
  | .add a b => Fl.add f (a.evalFl f) (b.evalFl f)
  | .sub a b => Fl.sub f (a.evalFl f) (b.evalFl f)
  | .mul a b => Fl.mul f (a.evalFl f) (b.evalFl f)
  | .div a b => Fl.div f (a.evalFl f) (b.evalFl f)

/-- `N::coefficient()` for float storage -/
def UnitDecl.coefFl (f : Fmt) (u : UnitDecl) : Fl := u.coef.evalFl f

/-- `N::constant(op)` for float storage: the declared constant, or −0.0 (`Add`) / +0.0 (`Sub`) -/
def UnitDecl.consFl (f : Fmt) (add : Bool) (u : UnitDecl) : Fl :=
  match u.cons with
  | some c => c.evalFl f
  | none => Fl.zero f add

end Uom
