import Uom.Model.Table
/-!
# Parsing and formatting (src/quantity.rs `FromStr`, src/system.rs `fmt`)

Strings are byte lists (UTF-8).  `fromStr` is the transcription of

    let mut parts = s.splitn(2, ' ');
    let value = parts.next().unwrap();
    let unit = parts.next().ok_or(NoSeparator)?;
    let value = value.parse::<V>().map_err(|_| ValueParseError)?;
    match unit.trim() { $abbreviation | $singular | $plural => Ok(Self::new::<$unit>(value)), … _ => Err(UnknownUnit) }

`V::parse` is a parameter.  `trim` removes Unicode `White_Space` from both ends.
-/
namespace Uom

abbrev Bytes := List Nat

/-- split at the first U+0020: `some (before, after)`, or `none` when there is no space -/
def splitFirstSpace : Bytes → Option (Bytes × Bytes)
  | [] => none
  | b :: rest =>
    if b = 0x20 then some ([], rest)
    else match splitFirstSpace rest with
      | none => none
      | some (a, c) => some (b :: a, c)

/-- length (in bytes) of a `White_Space` character at the *start* of the list, 0 if none -/
def wsPrefixLen : Bytes → Nat
  | b :: rest =>
    if (0x09 ≤ b ∧ b ≤ 0x0d) ∨ b = 0x20 then 1
    else match b, rest with
      | 0xc2, c :: _ => if c = 0x85 ∨ c = 0xa0 then 2 else 0                       -- U+0085, U+00A0
      | 0xe1, 0x9a :: 0x80 :: _ => 3                                                -- U+1680
      | 0xe2, 0x80 :: c :: _ =>
        if (0x80 ≤ c ∧ c ≤ 0x8a) ∨ c = 0xa8 ∨ c = 0xa9 ∨ c = 0xaf then 3 else 0    -- U+2000–200A, 2028, 2029, 202F
      | 0xe2, 0x81 :: 0x9f :: _ => 3                                                -- U+205F
      | 0xe3, 0x80 :: 0x80 :: _ => 3                                                -- U+3000
      | _, _ => 0
  | [] => 0

def trimStartFuel : Nat → Bytes → Bytes
  | 0, s => s
  | fuel + 1, s => let n := wsPrefixLen s; if n = 0 then s else trimStartFuel fuel (s.drop n)

def trimStart (s : Bytes) : Bytes := trimStartFuel s.length s

/-- length of a `White_Space` character at the *end* of the list -/
def wsSuffixLen (s : Bytes) : Nat :=
  let r := s.reverse
  match r with
  | [] => 0
  | b :: _ =>
    if (0x09 ≤ b ∧ b ≤ 0x0d) ∨ b = 0x20 then 1
    else
      let last2 := (r.take 2).reverse
      let last3 := (r.take 3).reverse
      if last2.length = 2 ∧ wsPrefixLen last2 = 2 then 2
      else if last3.length = 3 ∧ wsPrefixLen last3 = 3 then 3
      else 0

def trimEndFuel : Nat → Bytes → Bytes
  | 0, s => s
  | fuel + 1, s => let n := wsSuffixLen s; if n = 0 then s else trimEndFuel fuel (s.take (s.length - n))

def trimEnd (s : Bytes) : Bytes := trimEndFuel s.length s

/-- Rust's `str::trim` -/
def trim (s : Bytes) : Bytes := trimEnd (trimStart s)

/-- the three labels of a unit, in declaration order of the quantity -/
structure Labels where
  abbr : Bytes
  sing : Bytes
  plur : Bytes
deriving Repr, Inhabited

/-- first unit (declaration order) one of whose labels equals `l`: what the generated `match` selects -/
def lookupLabel (units : List Labels) (l : Bytes) : Option Nat :=
  units.findIdx? fun u => u.abbr == l || u.sing == l || u.plur == l

inductive ParseResult (α : Type) where
  | ok (v : α)
  | noSeparator
  | valueParseError
  | unknownUnit
deriving Repr, Inhabited, DecidableEq

/-- `Quantity::from_str` with `parse = V::from_str` and `mk i v = Self::new::<unit i>(v)` -/
def fromStr {V Q : Type} (units : List Labels) (parse : Bytes → Option V) (mk : Nat → V → Q) (s : Bytes) : ParseResult Q :=
  match splitFirstSpace s with
  | none => .noSeparator
  | some (num, rest) =>
    match parse num with
    | none => .valueParseError
    | some v =>
      match lookupLabel units (trim rest) with
      | some i => .ok (mk i v)
      | none => .unknownUnit

/-- display style of `format_args` -/
inductive Style where
  | abbreviation
  | description
deriving Repr, DecidableEq

/-- the label printed after the value -/
def label (u : Labels) (style : Style) (isOne : Bool) : Bytes :=
  match style with
  | .abbreviation => u.abbr
  | .description => if isOne then u.sing else u.plur

/-- `QuantityArguments::fmt`: the storage type's own formatting of the converted value (`fmtV`, a
    parameter honouring the format spec), one space, the label -/
def fmtArgs {V : Type} (fmtV : V → Bytes) (isOne : V → Bool) (u : Labels) (style : Style) (x : V) : Bytes :=
  fmtV x ++ [0x20] ++ label u style (isOne x)

/-- decimal digits of an integer, as bytes -/
def intBytes (i : Int) : Bytes :=
  (toString i).toUTF8.toList.map (·.toNat)

/-- `Debug for Quantity`: the stored value's Debug output, then ` <abbr>^<exp>` for every non-zero
    exponent in system order -/
def fmtDebug (valueDbg : Bytes) (baseAbbrs : List Bytes) (dim : List Int) : Bytes :=
  valueDbg ++ ((baseAbbrs.zip dim).filter (fun p => p.2 ≠ 0)).flatMap fun p => [0x20] ++ p.1 ++ [0x5e] ++ intBytes p.2

end Uom
