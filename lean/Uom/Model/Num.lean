import Uom.Model.Conv
/-!
# Storage types as the harness sees them: parsing, printing and the *raw* operations of the type

`Tri` is the outcome of a raw operation: a value, a panic (integer overflow, division by zero –
what a debug build of Rust does), or `unsure` (a fixed-width rational whose intermediate may have
overflowed: nothing is claimed, the case is counted as guarded).
-/
namespace Uom

inductive Tri (α : Type) where
  | ok (v : α)
  | panic
  | unsure
deriving Repr, Inhabited

def Tri.bind {α β} (x : Tri α) (f : α → Tri β) : Tri β :=
  match x with
  | .ok v => f v
  | .panic => .panic
  | .unsure => .unsure

/-- the raw (bare-number) operations of a storage type, as far as the quantity operators use them -/
structure NumTy where
  name : String
  S : Storage
  parseV : String → Option S.V
  parseT : String → Option S.T
  showV : S.V → String
  eqV : S.V → S.V → Bool
  add : S.V → S.V → Tri S.V
  sub : S.V → S.V → Tri S.V
  mul : S.V → S.V → Tri S.V
  div : S.V → S.V → Tri S.V
  rem : S.V → S.V → Tri S.V
  neg : S.V → Tri S.V
  /-- `partial_cmp`: `some (-1|0|1)` or `none` (unordered) -/
  cmp : S.V → S.V → Option Int
  /-- is a conversion result (a `T` turned into a `V`) trustworthy, or may an intermediate have overflowed -/
  tOk : S.T → Bool
  /-- does `value()` of this factor fit the storage type -/
  vOk : S.V → Bool

/-! ## parsing helpers -/

def parseInt? (s : String) : Option Int :=
  if s.startsWith "-" then (s.drop 1).toString.toNat?.map (fun n => -(n : Int)) else s.toNat?.map (fun n => (n : Int))

def parseRat? (s : String) : Option Rat :=
  match s.splitOn "/" with
  | [n] => (parseInt? n).map (fun i => (i : Rat))
  | [n, d] => do
    let n ← parseInt? n
    let d ← parseInt? d
    if d = 0 then none else some ((n : Rat) / (d : Rat))
  | _ => none

def showRat (r : Rat) : String := s!"{r.num}/{r.den}"

def hexDigit? (c : Char) : Option Nat :=
  if '0' ≤ c ∧ c ≤ '9' then some (c.toNat - 48)
  else if 'a' ≤ c ∧ c ≤ 'f' then some (c.toNat - 87)
  else if 'A' ≤ c ∧ c ≤ 'F' then some (c.toNat - 55)
  else none

def parseHex? (s : String) : Option Nat :=
  if s.isEmpty then none
  else s.foldl (fun acc c => match acc, hexDigit? c with
    | some a, some d => some (a * 16 + d)
    | _, _ => none) (some 0)

def toHex (n : Nat) (width : Nat) : String :=
  let ds := Nat.toDigits 16 n
  String.ofList (List.replicate (width - ds.length) '0' ++ ds)

def flOf? (f : Fmt) (s : String) : Option Fl := (parseHex? s).map (Fl.ofBits f)
def flHex (f : Fmt) (x : Fl) : String := toHex (Fl.toBits f x) (f.w / 4)

/-! ## instances -/

def flTy (name : String) (f : Fmt) : NumTy where
  name := name
  S := flS f
  parseV := flOf? f
  parseT := flOf? f
  showV := flHex f
  eqV := fun a b => Fl.toBits f a == Fl.toBits f b
  add := fun a b => .ok (Fl.add f a b)
  sub := fun a b => .ok (Fl.sub f a b)
  mul := fun a b => .ok (Fl.mul f a b)
  div := fun a b => .ok (Fl.div f a b)
  rem := fun a b => .ok (Fl.fmod f a b)
  neg := fun a => .ok (Fl.neg a)
  cmp := Fl.cmp
  tOk := fun _ => true
  vOk := fun _ => true

/-- truncated remainder of rationals: `a - trunc(a/b)·b` (num-rational's `%`) -/
def ratRem (a b : Rat) : Rat := a - ((ratTrunc (a / b) : Int) : Rat) * b

def ratCmp (a b : Rat) : Option Int := some (if a < b then -1 else if a = b then 0 else 1)

@[reducible] def bigRatTy : NumTy where
  name := "bigrational"
  S := ratS
  parseV := parseRat?
  parseT := parseRat?
  showV := showRat
  eqV := fun a b => decide (a = b)
  add := fun a b => .ok (a + b)
  sub := fun a b => .ok (a - b)
  mul := fun a b => .ok (a * b)
  div := fun a b => if b = 0 then .panic else .ok (a / b)
  rem := fun a b => if b = 0 then .panic else .ok (ratRem a b)
  neg := fun a => .ok (-a)
  cmp := ratCmp
  tOk := fun _ => true
  vOk := fun _ => true

/-- conservative "fits comfortably" test for fixed-width rationals: numerator and denominator below
    `2^(bits/2 - 1)`, so that no cross product in num-rational's algorithms can overflow -/
def ratSmall (bits : Nat) (r : Rat) : Bool := r.num.natAbs < 2 ^ (bits / 2 - 1) && r.den < 2 ^ (bits / 2 - 1)

def fixRatTy (name : String) (bits : Nat) : NumTy where
  name := name
  S := ratS
  parseV := parseRat?
  parseT := parseRat?
  showV := showRat
  eqV := fun a b => decide (a = b)
  add := fun a b => if ratSmall bits a && ratSmall bits b then .ok (a + b) else .unsure
  sub := fun a b => if ratSmall bits a && ratSmall bits b then .ok (a - b) else .unsure
  mul := fun a b => if ratSmall bits a && ratSmall bits b then .ok (a * b) else .unsure
  div := fun a b => if b = 0 then .panic else if ratSmall bits a && ratSmall bits b then .ok (a / b) else .unsure
  rem := fun a b => if b = 0 then .panic else if ratSmall bits a && ratSmall bits b then .ok (ratRem a b) else .unsure
  neg := fun a => if ratSmall bits a then .ok (-a) else .unsure
  cmp := ratCmp
  tOk := ratSmall bits
  vOk := fun _ => true

def intCmp (a b : Int) : Option Int := some (if a < b then -1 else if a = b then 0 else 1)

/-- arbitrary-precision integers; `lo = some 0` for `BigUint` (subtraction below zero panics) -/
def bigIntTy (name : String) (unsigned : Bool) : NumTy where
  name := name
  S := intS
  parseV := parseInt?
  parseT := parseRat?
  showV := toString
  eqV := fun a b => decide (a = b)
  add := fun a b => .ok (a + b)
  sub := fun a b => if unsigned && a < b then .panic else .ok (a - b)
  mul := fun a b => .ok (a * b)
  div := fun a b => if b = 0 then .panic else .ok (Int.tdiv a b)
  rem := fun a b => if b = 0 then .panic else .ok (Int.tmod a b)
  neg := fun a => if unsigned then .unsure else .ok (-a)
  cmp := intCmp
  tOk := fun _ => true
  vOk := fun v => !(unsigned && v < 0)

/-- fixed-width integers `[lo, hi]`; a debug build panics on overflow -/
def fixIntTy (name : String) (bits : Nat) (signed : Bool) : NumTy :=
  let lo : Int := if signed then -(2 ^ (bits - 1) : Nat) else 0
  let hi : Int := if signed then (2 ^ (bits - 1) : Nat) - 1 else (2 ^ bits : Nat) - 1
  let chk : Int → Tri Int := fun r => if lo ≤ r ∧ r ≤ hi then .ok r else .panic
  { name := name
    S := intS
    parseV := parseInt?
    parseT := parseRat?
    showV := toString
    eqV := fun a b => decide (a = b)
    add := fun a b => chk (a + b)
    sub := fun a b => chk (a - b)
    mul := fun a b => chk (a * b)
    div := fun a b => if b = 0 then .panic else chk (Int.tdiv a b)
    rem := fun a b => if b = 0 then .panic else (chk (Int.tdiv a b)).bind fun _ => .ok (Int.tmod a b)
    neg := fun a => if signed then chk (-a) else .unsure
    cmp := intCmp
    -- Ratio<iN> intermediates: only judged while numerator and denominator stay tiny
    tOk := ratSmall bits
    vOk := fun v => decide (lo ≤ v ∧ v ≤ hi) }

def numTy? (name : String) : Option NumTy :=
  match name with
  | "f64" => some (flTy "f64" b64)
  | "f32" => some (flTy "f32" b32)
  | "bigrational" => some bigRatTy
  | "rational64" => some (fixRatTy "rational64" 64)
  | "bigint" => some (bigIntTy "bigint" false)
  | "biguint" => some (bigIntTy "biguint" true)
  | "i32" => some (fixIntTy "i32" 32 true)
  | "i64" => some (fixIntTy "i64" 64 true)
  | "isize" => some (fixIntTy "isize" 64 true)
  | "u32" => some (fixIntTy "u32" 32 false)
  | "u64" => some (fixIntTy "u64" 64 false)
  | "i8" => some (fixIntTy "i8" 8 true)
  | "i16" => some (fixIntTy "i16" 16 true)
  | "i128" => some (fixIntTy "i128" 128 true)
  | "u8" => some (fixIntTy "u8" 8 false)
  | "u16" => some (fixIntTy "u16" 16 false)
  | "u128" => some (fixIntTy "u128" 128 false)
  | "usize" => some (fixIntTy "usize" 64 false)
  | "rational32" => some (fixRatTy "rational32" 32)
  | "rational" => some (fixRatTy "rational" 64)
  | _ => none

def fmtOf? (s : String) : Option Fmt :=
  if s == "f64" then some b64 else if s == "f32" then some b32 else none

end Uom
