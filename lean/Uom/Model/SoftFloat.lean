/-!
# Soft-float: IEEE-754 binary arithmetic, round-to-nearest-even, import-free

Every arithmetic operation is *exact result, then one rounding* (`roundDy`), with the IEEE special
cases and signed-zero rules.  A finite value is `fin s m e` = `(-1)^s · m · 2^e`.

Canonical form (what `ofBits` produces and every operation returns):
* normal:     `2^(p-1) ≤ m < 2^p`, `emin ≤ e ≤ emax`
* subnormal / zero: `m < 2^(p-1)`, `e = emin`
-/
namespace Uom

structure Fmt where
  /-- precision in bits (24 / 53) -/
  p : Nat
  /-- exponent of the unit in the last place of subnormals (-149 / -1074) -/
  emin : Int
  /-- largest exponent of the last-place unit of a finite value (104 / 971) -/
  emax : Int
  /-- total width of the interchange encoding -/
  w : Nat
deriving Repr, DecidableEq

def b64 : Fmt := ⟨53, -1074, 971, 64⟩
def b32 : Fmt := ⟨24, -149, 104, 32⟩

inductive Fl where
  | nan
  | inf (neg : Bool)
  | fin (neg : Bool) (m : Nat) (e : Int)
deriving Repr, DecidableEq, Inhabited

namespace Fl

def zero (f : Fmt) (neg : Bool) : Fl := fin neg 0 f.emin

def isZero : Fl → Bool
  | fin _ 0 _ => true
  | _ => false

def isNan : Fl → Bool
  | nan => true
  | _ => false

def isFinite : Fl → Bool
  | fin _ _ _ => true
  | _ => false

def signBit : Fl → Bool
  | nan => false
  | inf s => s
  | fin s _ _ => s

/-- Round the exact dyadic `M · 2^E` (`M > 0`) to the format, nearest-even; sign `s`. -/
def roundDy (f : Fmt) (s : Bool) (M : Nat) (E : Int) : Fl :=
  let b : Int := (M.log2 : Int) + 1                      -- bit length of M
  let sh : Int := max (b - f.p) (f.emin - E)             -- number of low bits to drop
  if sh ≤ 0 then
    -- exactly representable: shift left as far as the format allows
    let k : Int := min ((f.p : Int) - b) (E - f.emin)
    if E - k > f.emax then inf s else fin s (M * 2 ^ k.toNat) (E - k)
  else
    let n := sh.toNat
    let q := M / 2 ^ n
    let r := M % 2 ^ n
    let up : Bool := decide (2 * r > 2 ^ n) || (decide (2 * r = 2 ^ n) && decide (q % 2 = 1))
    let m := if up then q + 1 else q
    let e := E + sh
    if m = 2 ^ f.p then
      (if e + 1 > f.emax then inf s else fin s (2 ^ (f.p - 1)) (e + 1))
    else
      (if e > f.emax then inf s else fin s m e)

/-- round the signed exact dyadic `v · 2^E`; `zneg` is the sign of an exact zero result -/
def roundInt (f : Fmt) (v : Int) (E : Int) (zneg : Bool) : Fl :=
  if v = 0 then zero f zneg else roundDy f (decide (v < 0)) v.natAbs E

def sval (neg : Bool) (n : Nat) : Int := if neg then -(n : Int) else (n : Int)

def neg : Fl → Fl
  | nan => nan
  | inf s => inf (!s)
  | fin s m e => fin (!s) m e

def abs : Fl → Fl
  | nan => nan
  | inf _ => inf false
  | fin _ m e => fin false m e

def add (f : Fmt) : Fl → Fl → Fl
  | nan, _ => nan
  | _, nan => nan
  | inf a, inf b => if a = b then inf a else nan
  | inf a, fin _ _ _ => inf a
  | fin _ _ _, inf b => inf b
  | fin s1 m1 e1, fin s2 m2 e2 =>
    let e := min e1 e2
    let a := sval s1 (m1 * 2 ^ (e1 - e).toNat)
    let b := sval s2 (m2 * 2 ^ (e2 - e).toNat)
    -- exact zero: −0 only when both addends are −0 (x + (−x) = +0 under round-to-nearest)
    let zneg := if m1 = 0 ∧ m2 = 0 then s1 && s2 else false
    roundInt f (a + b) e zneg

def sub (f : Fmt) (x y : Fl) : Fl := add f x (neg y)

def mul (f : Fmt) : Fl → Fl → Fl
  | nan, _ => nan
  | _, nan => nan
  | inf a, inf b => inf (a != b)
  | inf a, fin b m _ => if m = 0 then nan else inf (a != b)
  | fin a m _, inf b => if m = 0 then nan else inf (a != b)
  | fin s1 m1 e1, fin s2 m2 e2 =>
    let s := s1 != s2
    if m1 * m2 = 0 then zero f s else roundDy f s (m1 * m2) (e1 + e2)

/-- quotient `n/d` (`n, d > 0`) as an exact-enough dyadic `M · 2^sh`: at least `p+2` significant
    bits of the quotient plus a sticky bit, so that one `roundDy` rounds the true quotient correctly -/
def divDy (p : Nat) (n d : Nat) : Nat × Int :=
  let k := (p + 2 + (d.log2 + 1)) - (n.log2 + 1)
  let num := n * 2 ^ k
  let q := num / d
  let st := if num % d = 0 then 0 else 1
  (2 * q + st, -(k : Int) - 1)

def div (f : Fmt) : Fl → Fl → Fl
  | nan, _ => nan
  | _, nan => nan
  | inf _, inf _ => nan
  | inf a, fin b _ _ => inf (a != b)
  | fin a _ _, inf b => zero f (a != b)
  | fin s1 m1 e1, fin s2 m2 e2 =>
    let s := s1 != s2
    if m2 = 0 then (if m1 = 0 then nan else inf s)
    else if m1 = 0 then zero f s
    else
      let (M, sh) := divDy f.p m1 m2
      roundDy f s M (e1 - e2 + sh)

/-- fused multiply-add `x * y + z` with a single rounding -/
def fma (f : Fmt) : Fl → Fl → Fl → Fl
  | nan, _, _ => nan
  | _, nan, _ => nan
  | _, _, nan => nan
  | inf a, inf b, z => (match z with | inf c => if (a != b) = c then inf c else nan | _ => inf (a != b))
  | inf a, fin b m _, z =>
    if m = 0 then nan else (match z with | inf c => if (a != b) = c then inf c else nan | _ => inf (a != b))
  | fin a m _, inf b, z =>
    if m = 0 then nan else (match z with | inf c => if (a != b) = c then inf c else nan | _ => inf (a != b))
  | fin _ _ _, fin _ _ _, inf c => inf c
  | fin s1 m1 e1, fin s2 m2 e2, fin s3 m3 e3 =>
    let sp := s1 != s2
    let mp := m1 * m2
    let ep := e1 + e2
    let e := min ep e3
    let a := sval sp (mp * 2 ^ (ep - e).toNat)
    let b := sval s3 (m3 * 2 ^ (e3 - e).toNat)
    let zneg := if mp = 0 ∧ m3 = 0 then sp && s3 else false
    roundInt f (a + b) e zneg

/-! ### comparisons (IEEE: NaN unordered, −0 = +0) -/

/-- compare two non-NaN values: `some (-1 | 0 | 1)`; `none` if either is NaN -/
def cmp : Fl → Fl → Option Int
  | nan, _ => none
  | _, nan => none
  | inf a, inf b => some (if a = b then 0 else if a then -1 else 1)
  | inf a, fin _ _ _ => some (if a then -1 else 1)
  | fin _ _ _, inf b => some (if b then 1 else -1)
  | fin s1 m1 e1, fin s2 m2 e2 =>
    let e := min e1 e2
    let a := sval s1 (m1 * 2 ^ (e1 - e).toNat)
    let b := sval s2 (m2 * 2 ^ (e2 - e).toNat)
    some (if a < b then -1 else if a = b then 0 else 1)

def lt (x y : Fl) : Bool := cmp x y == some (-1)
def le (x y : Fl) : Bool := cmp x y == some (-1) || cmp x y == some 0
def gt (x y : Fl) : Bool := cmp x y == some 1
def ge (x y : Fl) : Bool := cmp x y == some 1 || cmp x y == some 0
def feq (x y : Fl) : Bool := cmp x y == some 0

/-! ### remainder (Rust `%` on floats = C `fmod`: exact, sign of the dividend) -/

def fmod (f : Fmt) : Fl → Fl → Fl
  | nan, _ => nan
  | _, nan => nan
  | inf _, _ => nan
  | fin s m e, inf _ => fin s m e
  | fin s1 m1 e1, fin _ m2 e2 =>
    if m2 = 0 then nan
    else
      let e := min e1 e2
      let a := m1 * 2 ^ (e1 - e).toNat
      let b := m2 * 2 ^ (e2 - e).toNat
      let r := a % b
      if r = 0 then zero f s1 else roundDy f s1 r e

/-! ### rounding to integers -/

/-- integer part (toward zero) and "has a fractional part" of a finite magnitude `m · 2^e` -/
def truncMag (m : Nat) (e : Int) : Nat × Bool :=
  if e ≥ 0 then (m * 2 ^ e.toNat, false)
  else
    let n := (-e).toNat
    (m / 2 ^ n, m % 2 ^ n != 0)

/-- the integer `±n` as a float (exact when `n < 2^p`, which holds for every result of
    `floor/ceil/round/trunc` of a value with a fractional part) -/
def ofNatSigned (f : Fmt) (s : Bool) (n : Nat) : Fl :=
  if n = 0 then zero f s else roundDy f s n 0

def trunc (f : Fmt) : Fl → Fl
  | fin s m e => if e ≥ 0 then fin s m e else ofNatSigned f s (truncMag m e).1
  | x => x

def floor (f : Fmt) : Fl → Fl
  | fin s m e =>
    if e ≥ 0 then fin s m e
    else
      let (n, fr) := truncMag m e
      if s && fr then ofNatSigned f true (n + 1) else ofNatSigned f s n
  | x => x

def ceil (f : Fmt) : Fl → Fl
  | fin s m e =>
    if e ≥ 0 then fin s m e
    else
      let (n, fr) := truncMag m e
      if !s && fr then ofNatSigned f false (n + 1) else ofNatSigned f s n
  | x => x

/-- round half away from zero (Rust `f64::round`) -/
def round (f : Fmt) : Fl → Fl
  | fin s m e =>
    if e ≥ 0 then fin s m e
    else
      let n := (-e).toNat
      let q := m / 2 ^ n
      let r := m % 2 ^ n
      if 2 * r ≥ 2 ^ n then ofNatSigned f s (q + 1) else ofNatSigned f s q
  | x => x

/-- Rust `fract`: `self - self.trunc()` -/
def fract (f : Fmt) (x : Fl) : Fl := sub f x (trunc f x)

/-! ### integer conversions (num-traits `ToPrimitive` / `FromPrimitive`) -/

/-- num-traits `to_u64`/`to_u32` (`bits` = 64 / 32): `Some(trunc x)` iff `-1 < x < 2^bits` -/
def toUInt (bits : Nat) : Fl → Option Nat
  | fin s m e =>
    let (n, _) := truncMag m e
    if s then (if n = 0 then some 0 else none)
    else if n < 2 ^ bits then some n else none
  | _ => none

/-- num-traits `to_i64`/`to_i32`: `Some(trunc x)` iff `-2^(bits-1) - 1 < x < 2^(bits-1)` -/
def toSInt (bits : Nat) : Fl → Option Int
  | fin s m e =>
    let (n, _) := truncMag m e
    if s then (if n ≤ 2 ^ (bits - 1) then some (-(n : Int)) else none)
    else if n < 2 ^ (bits - 1) then some n else none
  | _ => none

/-- `n as f64` / `n as f32` -/
def ofNat (f : Fmt) (n : Nat) : Fl := if n = 0 then zero f false else roundDy f false n 0

def ofInt (f : Fmt) (n : Int) : Fl := if n = 0 then zero f false else roundDy f (decide (n < 0)) n.natAbs 0

def one (f : Fmt) : Fl := fin false (2 ^ (f.p - 1)) (-((f.p : Int) - 1))

def isOne (x : Fl) : Bool := cmp x (fin false 1 0) == some 0

/-- `recip`: `1 / x` -/
def recip (f : Fmt) (x : Fl) : Fl := div f (one f) x

/-! ### decimal literals: Rust parses a literal to the nearest value of the target type -/

/-- round the positive rational `n/d` -/
def roundQ (f : Fmt) (s : Bool) (n d : Nat) : Fl :=
  if n = 0 then zero f s
  else
    let (M, sh) := divDy f.p n d
    roundDy f s M sh

/-- the literal `m · 10^e10` -/
def ofDecimal (f : Fmt) (m : Nat) (e10 : Int) : Fl :=
  if e10 ≥ 0 then roundQ f false (m * 10 ^ e10.toNat) 1 else roundQ f false m (10 ^ (-e10).toNat)

/-! ### interchange encoding -/

def ofBits (f : Fmt) (bits : Nat) : Fl :=
  let fracBits := f.p - 1
  let expBits := f.w - f.p
  let frac := bits % 2 ^ fracBits
  let ex := (bits / 2 ^ fracBits) % 2 ^ expBits
  let s := (bits / 2 ^ (f.w - 1)) % 2 == 1
  if ex == 2 ^ expBits - 1 then (if frac == 0 then inf s else nan)
  else if ex == 0 then fin s frac f.emin
  else fin s (frac + 2 ^ fracBits) (f.emin + (ex : Int) - 1)

/-- canonical encoding (every NaN is the positive quiet NaN) -/
def toBits (f : Fmt) : Fl → Nat
  | nan => (2 ^ (f.w - f.p) - 1) * 2 ^ (f.p - 1) + 2 ^ (f.p - 2)
  | inf s => (if s then 2 ^ (f.w - 1) else 0) + (2 ^ (f.w - f.p) - 1) * 2 ^ (f.p - 1)
  | fin s m e =>
    let sb := if s then 2 ^ (f.w - 1) else 0
    if m < 2 ^ (f.p - 1) then sb + m
    else sb + ((e - f.emin + 1).toNat) * 2 ^ (f.p - 1) + (m - 2 ^ (f.p - 1))

/-- exact value of a finite float as a rational (0 for NaN/inf: callers guard) -/
def toRat : Fl → Rat
  | fin s m e =>
    let a : Rat := if e ≥ 0 then ((m * 2 ^ e.toNat : Nat) : Rat) else (m : Rat) / ((2 ^ (-e).toNat : Nat) : Rat)
    if s then -a else a
  | _ => 0

/-- canonical-form predicate -/
def Canonical (f : Fmt) : Fl → Prop
  | nan => True
  | inf _ => True
  | fin _ m e => (2 ^ (f.p - 1) ≤ m ∧ m < 2 ^ f.p ∧ f.emin ≤ e ∧ e ≤ f.emax) ∨ (m < 2 ^ (f.p - 1) ∧ e = f.emin)

end Fl
end Uom
