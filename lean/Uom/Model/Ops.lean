import Uom.Model.Num
/-!
# The operator table of src/system.rs (and the temperature / kind-conversion impls of src/si)

Every quantity-level binary form reduces to one *raw* operation of the storage type applied to the
left operand's stored value and the right operand's stored value — after `change_base` when
automatic conversion is enabled (`binOpOn`), directly when it is not (`binOpOff`; the signatures
then force both operands to share base units).
-/
namespace Uom

/-- result of a form: a stored value, a boolean, or a `partial_cmp` ordering -/
inductive Res (α : Type) where
  | val (v : α)
  | bool (b : Bool)
  | ord (o : Option Int)
deriving Repr, Inhabited

inductive RawBin where
  | add | sub | rem | mul | div | eq | ne | lt | le | gt | ge | pcmp
deriving Repr, DecidableEq, Inhabited

/-- quantity-level binary forms between two quantities -/
inductive BinForm where
  | add | sub | rem | adda | suba | rema | mul | div
  | eq | ne | lt | le | gt | ge | pcmp
  | ttAddTi | ttSubTi | ttAddaTi | ttSubaTi | tiAddTt
deriving Repr, DecidableEq, Inhabited

def BinForm.ofString? : String → Option BinForm
  | "add" => some .add | "sub" => some .sub | "rem" => some .rem
  | "adda" => some .adda | "suba" => some .suba | "rema" => some .rema
  | "mul" => some .mul | "div" => some .div
  | "eq" => some .eq | "ne" => some .ne | "lt" => some .lt | "le" => some .le
  | "gt" => some .gt | "ge" => some .ge | "pcmp" => some .pcmp
  | "tt+ti" => some .ttAddTi | "tt-ti" => some .ttSubTi | "tt+=ti" => some .ttAddaTi
  | "tt-=ti" => some .ttSubaTi | "ti+tt" => some .tiAddTt
  | _ => none

/-- the raw operation each form is implemented by (transcribed from the `impl` bodies) -/
def BinForm.raw : BinForm → RawBin
  | .add | .adda | .ttAddTi | .ttAddaTi | .tiAddTt => .add
  | .sub | .suba | .ttSubTi | .ttSubaTi => .sub
  | .rem | .rema => .rem
  | .mul => .mul
  | .div => .div
  | .eq => .eq | .ne => .ne | .lt => .lt | .le => .le | .gt => .gt | .ge => .ge | .pcmp => .pcmp

def rawBin (N : NumTy) (op : RawBin) (a b : N.S.V) : Tri (Res N.S.V) :=
  match op with
  | .add => (N.add a b).bind fun v => .ok (.val v)
  | .sub => (N.sub a b).bind fun v => .ok (.val v)
  | .rem => (N.rem a b).bind fun v => .ok (.val v)
  | .mul => (N.mul a b).bind fun v => .ok (.val v)
  | .div => (N.div a b).bind fun v => .ok (.val v)
  | .eq => .ok (.bool (N.cmp a b == some 0))
  | .ne => .ok (.bool (N.cmp a b != some 0))
  | .lt => .ok (.bool (N.cmp a b == some (-1)))
  | .le => .ok (.bool (N.cmp a b == some (-1) || N.cmp a b == some 0))
  | .gt => .ok (.bool (N.cmp a b == some 1))
  | .ge => .ok (.bool (N.cmp a b == some 1 || N.cmp a b == some 0))
  | .pcmp => .ok (.ord (N.cmp a b))

/-- autoconvert enabled: `self.value ⊙ change_base::<Dr, Ul, Ur, V>(&rhs.value)`;
    `l`, `r` are the base factors of `Ul`, `Ur` over the right operand's dimension -/
def binOpOn (N : NumTy) (form : BinForm) (l r : N.S.T) (a b : N.S.V) : Tri (Res N.S.V) :=
  rawBin N form.raw a (changeBase N.S l r b)

/-- autoconvert disabled: `self.value ⊙ rhs.value` -/
def binOpOff (N : NumTy) (form : BinForm) (a b : N.S.V) : Tri (Res N.S.V) :=
  rawBin N form.raw a b

/-- kind conversion `From<Quantity<…Kind = A…, Ur>> for Quantity<…Kind = B…, Ul>` (src/si/mod.rs):
    `change_base` when autoconvert is on, the bare value otherwise -/
def kindFromOn (S : Storage) (l r : S.T) (a : S.V) : S.V := changeBase S l r a
def kindFromOff (S : Storage) (a : S.V) : S.V := a

/-- `x.mul_add(a, b)` for floats: both operands converted to the base units of `x` -/
def mulAddOn (f : Fmt) (la ra lb rb : Fl) (x a b : Fl) : Fl :=
  Fl.fma f x (changeBase (flS f) la ra a) (changeBase (flS f) lb rb b)

def mulAddOff (f : Fmt) (x a b : Fl) : Fl := Fl.fma f x a b

def Res.show (N : NumTy) : Res N.S.V → String
  | .val v => N.showV v
  | .bool b => if b then "1" else "0"
  | .ord none => "none"
  | .ord (some o) => if o < 0 then "lt" else if o = 0 then "eq" else "gt"

def Tri.showRes (N : NumTy) : Tri (Res N.S.V) → Option String
  | .ok r => some (r.show N)
  | .panic => some "PANIC"
  | .unsure => none

end Uom

namespace Uom

/-! ## Histories: a quantity register and a bare-number register subjected to the same operations -/

/-- one operation of a history: a binary form with its right operand's stored value -/
structure Step (α : Type) where
  form : BinForm
  operand : α

/-- keep the register when the form yields a boolean / ordering; a panic is sticky -/
def applyRes {α : Type} (reg : α) : Tri (Res α) → Tri α
  | .ok (.val v) => .ok v
  | .ok _ => .ok reg
  | .panic => .panic
  | .unsure => .unsure

/-- quantity register, autoconvert enabled, both operands in base units with factor `l` -/
def stepQ (N : NumTy) (l : N.S.T) (reg : Tri N.S.V) (s : Step N.S.V) : Tri N.S.V :=
  reg.bind fun a => applyRes a (binOpOn N s.form l l a s.operand)

/-- bare-number register -/
def stepRaw (N : NumTy) (reg : Tri N.S.V) (s : Step N.S.V) : Tri N.S.V :=
  reg.bind fun a => applyRes a (rawBin N s.form.raw a s.operand)

def runQ (N : NumTy) (l : N.S.T) (init : N.S.V) (steps : List (Step N.S.V)) : Tri N.S.V :=
  steps.foldl (stepQ N l) (.ok init)

def runRaw (N : NumTy) (init : N.S.V) (steps : List (Step N.S.V)) : Tri N.S.V :=
  steps.foldl (stepRaw N) (.ok init)

end Uom

namespace Uom

/-! ## Same-base forms checked against the bare-number operation (C07) -/

/-- how a same-base quantity-level form is computed from the stored values `a` (self) and `b`
    (operand / scalar): the raw operation and whether the operands are swapped (`k / q`) -/
def sameFormRaw : String → Option (RawBin × Bool)
  | "add" | "adda" => some (.add, false)
  | "sub" | "suba" => some (.sub, false)
  | "rem" | "rema" => some (.rem, false)
  | "mul" | "mulk" | "mulka" => some (.mul, false)
  | "div" | "divk" | "divka" => some (.div, false)
  | "kmul" => some (.mul, true)
  | "kdiv" => some (.div, true)
  | "eq" => some (.eq, false) | "ne" => some (.ne, false)
  | "lt" => some (.lt, false) | "le" => some (.le, false)
  | "gt" => some (.gt, false) | "ge" => some (.ge, false)
  | "pcmp" => some (.pcmp, false)
  | _ => none

/-- forms that forward to a storage-type function the model treats as a parameter
    (the harness supplies the bare-number result; the model only says *which* function is forwarded to) -/
def forwardedForms : List String :=
  ["cmp", "ordmax", "ordmin", "clamp", "satadd", "satsub", "fmax", "fmin", "hypot", "atan2", "mul_add",
   "neg", "abs", "signum", "recip", "sqrt", "cbrt", "powi2", "powi-3", "classify", "is_nan", "is_infinite",
   "is_finite", "is_normal", "is_sign_positive", "is_sign_negative", "is_zero"]

end Uom
