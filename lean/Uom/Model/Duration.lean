import Uom.Model.Conv
import Uom.Model.Num
/-!
# `TryFrom<Time> for Duration` and `TryFrom<Duration> for Time` (src/si/time.rs)

    if time < Time::zero() { return Err(NegativeDuration) }
    let secs  = time.get::<second>().to_u64();
    let nanos = (time % Time::new::<second>(V::one())).get::<nanosecond>().to_u32();
    match (secs, nanos) { (Some(s), Some(n)) => Ok(Duration::new(s, n)), _ => Err(Overflow) }

`f` is the base factor of the time dimension, `cs`, `cn` the coefficients of `second`, `nanosecond`.
-/
namespace Uom

inductive DurResult where
  | ok (secs nanos : Nat)
  | negative
  | overflow
  | panic
deriving Repr, DecidableEq, Inhabited

/-- `Duration::new(secs, nanos)`: carries whole seconds out of `nanos`; panics if the seconds overflow u64 -/
def durationNew (secs nanos : Nat) : DurResult :=
  let s := secs + nanos / 1000000000
  if s < 2 ^ 64 then .ok s (nanos % 1000000000) else .panic

/-- float storage -/
def durOfTimeFl (f : Fmt) (fac cs cn v : Fl) : DurResult :=
  let S := flS f
  if Fl.lt v (Fl.zero f false) then .negative
  else
    let secs := Fl.toUInt 64 (fromBase S cs S.constSub fac v)
    let oneSec := toBase S cs S.constAdd fac (Fl.one f)
    -- `time % one_second`: both operands share base units, `change_base` is the identity (C07)
    let r := Fl.fmod f v (changeBase S fac fac oneSec)
    let nanos := Fl.toUInt 32 (fromBase S cn S.constSub fac r)
    match secs, nanos with
    | some s, some n => durationNew s n
    | _, _ => .overflow

/-- `Time::try_from(Duration)` for floats: `new::<second>(secs as V) + new::<nanosecond>(nanos as V)`
    (`from_u64`/`from_u32` never fail for floats) -/
def timeOfDurFl (f : Fmt) (fac cs cn : Fl) (secs nanos : Nat) : Fl :=
  let S := flS f
  let a := toBase S cs S.constAdd fac (Fl.ofNat f secs)
  let b := toBase S cn S.constAdd fac (Fl.ofNat f nanos)
  Fl.add f a (changeBase S fac fac b)

/-- integer storage (exact model; the harness only judges it while nothing overflows) -/
def durOfTimeInt (fac cs cn : Rat) (v : Int) : DurResult :=
  if v < 0 then .negative
  else if cs = 0 ∨ fac = 0 then .panic
  else
    let secs := ratTrunc ((v : Rat) * fac / cs)
    let oneSec := ratTrunc (cs / fac)
    if oneSec = 0 then .panic            -- remainder by a zero quantity
    else if cn = 0 then .panic           -- division by a zero ratio in `get::<nanosecond>()`
    else
      let r := Int.tmod v oneSec
      let nanos := ratTrunc ((r : Rat) * fac / cn)
      if 0 ≤ secs ∧ secs < 2 ^ 64 ∧ 0 ≤ nanos ∧ nanos < 2 ^ 32 then durationNew secs.toNat nanos.toNat else .overflow

def DurResult.show : DurResult → String
  | .ok s n => s!"ok:{s}:{n}"
  | .negative => "neg"
  | .overflow => "overflow"
  | .panic => "PANIC"

end Uom
