import Uom.Model.Table
/-!
# Reading a unit identifier as a composition (C05)

A *reading* is a list of groups (group 0 = numerator, later groups = denominators introduced by
`per`); a group is a list of factors naming a unit of the table, optionally with a prefix glued on and
one of the forms `square x` / `cubic x` / `x squared` / `x cubed`.  `render` is the formal meaning of
"identifier composed of prefixes, unit names and per/square/cubic/squared/cubed"; `value` and `dimOf`
are what the composition yields from the table.
-/
namespace Uom

structure Fac where
  qi : Nat
  ui : Nat
  /-- index into the prefix list, or −1 -/
  pfx : Int
  /-- 0 plain, 1 `square x`, 2 `cubic x`, 3 `x squared`, 4 `x cubed` -/
  form : Nat
deriving Repr, DecidableEq

abbrev Reading := List (List Fac)

structure Cert where
  qi : Nat
  ui : Nat
  readings : List Reading
deriving Repr

def Fac.power (f : Fac) : Nat := match f.form with | 0 => 1 | 1 => 2 | 2 => 3 | 3 => 2 | _ => 3

def getUnit (t : List QuantityDecl) (qi ui : Nat) : Option (QuantityDecl × UnitDecl) :=
  match t[qi]? with
  | none => none
  | some q => match q.units[ui]? with
    | none => none
    | some u => some (q, u)

def sUnderscore : Str := ⟨1, 0x5f⟩
def sSquare : Str := ⟨7, 0x7371756172655f⟩        -- "square_"
def sCubic : Str := ⟨6, 0x63756269635f⟩           -- "cubic_"
def sSquared : Str := ⟨8, 0x5f73717561726564⟩     -- "_squared"
def sCubed : Str := ⟨6, 0x5f6375626564⟩           -- "_cubed"
def sPer : Str := ⟨3, 0x706572⟩                   -- "per"

def Fac.name (t : List QuantityDecl) (ps : List (Str × CExpr)) (f : Fac) : Option Str :=
  match getUnit t f.qi f.ui with
  | none => none
  | some (_, u) =>
    let base : Option Str := if f.pfx < 0 then some u.name else (ps[f.pfx.toNat]?).map fun p => p.1 ++ u.name
    base.map fun b => match f.form with
      | 0 => b | 1 => sSquare ++ b | 2 => sCubic ++ b | 3 => b ++ sSquared | _ => b ++ sCubed

def joinWith (sep : Str) : List Str → Str
  | [] => Str.empty
  | [a] => a
  | a :: rest => a ++ sep ++ joinWith sep rest

def renderGroup (t : List QuantityDecl) (ps : List (Str × CExpr)) (g : List Fac) : Option Str :=
  (g.mapM (Fac.name t ps)).map (joinWith sUnderscore)

/-- the identifier a reading spells -/
def render (t : List QuantityDecl) (ps : List (Str × CExpr)) (r : Reading) : Option Str :=
  (r.mapM (renderGroup t ps)).map fun gs =>
    -- an empty numerator spells `per_x`
    joinWith sUnderscore ((gs.zipIdx.map fun (g, i) => if i = 0 then [g] else [sPer, g]).flatten.filter fun s => s.len != 0)

def Fac.value (t : List QuantityDecl) (ps : List (Str × CExpr)) (f : Fac) : Option Rat :=
  match getUnit t f.qi f.ui with
  | none => none
  | some (_, u) =>
    let p : Option Rat := if f.pfx < 0 then some 1 else (ps[f.pfx.toNat]?).map fun p => p.2.exact
    p.map fun p => (p * u.coef.exact) ^ f.power

def groupValue (t : List QuantityDecl) (ps : List (Str × CExpr)) (g : List Fac) : Option Rat :=
  (g.mapM (Fac.value t ps)).map fun vs => vs.foldl (· * ·) 1

/-- the coefficient the composition yields: numerator group divided by every denominator group -/
def value (t : List QuantityDecl) (ps : List (Str × CExpr)) (r : Reading) : Option Rat :=
  (r.mapM (groupValue t ps)).map fun vs =>
    match vs with
    | [] => 1
    | n :: ds => ds.foldl (· / ·) n

def dimAdd (k : Int) : List Int → List Int → List Int
  | a :: as, b :: bs => (a + k * b) :: dimAdd k as bs
  | as, [] => as
  | [], _ => []

def groupDim (t : List QuantityDecl) (sign : Int) (acc : List Int) (g : List Fac) : Option (List Int) :=
  g.foldlM (fun acc f => (getUnit t f.qi f.ui).map fun (q, _) => dimAdd (sign * f.power) acc q.dim) acc

/-- the dimension the composition yields -/
def dimOf (t : List QuantityDecl) (n : Nat) (r : Reading) : Option (List Int) :=
  match r with
  | [] => some (List.replicate n 0)
  | g :: ds => do
    let a ← groupDim t 1 (List.replicate n 0) g
    ds.foldlM (groupDim t (-1)) a

/-- `|a / b − 1| ≤ bound` without division (`b ≠ 0`) -/
def relClose (bound : Rat) (a b : Rat) : Bool :=
  b != 0 && decide ((if a - b < 0 then b - a else a - b) ≤ bound * (if b < 0 then -b else b))

/-- a reading is good for unit `(qi, ui)`: it spells the unit's identifier, has the quantity's
    dimension, and reproduces the declared coefficient within `bound` -/
def readingOk (t : List QuantityDecl) (ps : List (Str × CExpr)) (bound : Rat) (q : QuantityDecl) (u : UnitDecl) (r : Reading) : Bool :=
  decide (render t ps r = some u.name) && decide (dimOf t q.dim.length r = some q.dim) &&
    (match value t ps r with | some v => relClose bound u.coef.exact v | none => false)

def certOk (t : List QuantityDecl) (ps : List (Str × CExpr)) (bound : Rat) (c : Cert) : Bool :=
  match getUnit t c.qi c.ui with
  | none => false
  | some (q, u) => u.cons.isNone && c.readings.any (readingOk t ps bound q u)

end Uom
