import Uom.Model.Oracle
/-!
# Line protocol: one harness case per line → model recomputation + oracle verdicts
-/
namespace Uom

inductive Outcome where
  | ok
  | guard (why : String)
  | diff (tag : String) (detail : String)
  | prop (tag : String) (why : String)
deriving Repr, Inhabited

def hexDigit? (c : Char) : Option Nat :=
  if '0' ≤ c ∧ c ≤ '9' then some (c.toNat - 48)
  else if 'a' ≤ c ∧ c ≤ 'f' then some (c.toNat - 87)
  else if 'A' ≤ c ∧ c ≤ 'F' then some (c.toNat - 55)
  else none

def parseHex? (s : String) : Option Nat :=
  if s.isEmpty then none
  else s.foldl (fun acc c => match acc, hexDigit? c with
    | some a, some d => some (a * 16 + d)
    | _, _ => none) (some 0)

def toHex (n : Nat) (width : Nat) : String :=
  let ds := Nat.toDigits 16 n
  String.ofList (List.replicate (width - ds.length) '0' ++ ds)

def fmtOf? (s : String) : Option Fmt :=
  if s == "f64" then some b64 else if s == "f32" then some b32 else none

def flOf? (f : Fmt) (s : String) : Option Fl := (parseHex? s).map (Fl.ofBits f)

def flHex (f : Fmt) (x : Fl) : String := toHex (Fl.toBits f x) (f.w / 4)

def flList? (f : Fmt) (s : String) : Option (List Fl) :=
  (s.splitOn ":").mapM (flOf? f)

/-- bit-level comparison of the model's value with the implementation's (NaNs canonicalised) -/
def cmpFl (f : Fmt) (tag : String) (model obs : Fl) : Outcome :=
  if Fl.toBits f model = Fl.toBits f obs then .ok
  else .diff tag s!"model={flHex f model} impl={flHex f obs}"

def ofVerdict (tag : String) : Verdict → Outcome
  | .pass => .ok
  | .fail why => .prop tag why
  | .guard why => .guard why

def convCase? (vt coef consA consS pows v : String) : Option ConvCase := do
  let f ← fmtOf? vt
  return { fmt := f, coef := ← flOf? f coef, consA := ← flOf? f consA, consS := ← flOf? f consS,
           pows := ← flList? f pows, v := ← flOf? f v }

/-- which branch of `to_base` / `from_base` the case takes, for the input distribution -/
def branchKey (c : ConvCase) : String :=
  let S := flS c.fmt
  let f := baseFactor S c.pows
  let a := if S.ge c.coef f then "to:ge" else "to:lt"
  let b := if S.lt c.coef f then "from:lt" else "from:ge"
  let k := if c.consA.isZero then "lin" else "affine"
  let fk := if Fl.cmp f (Fl.one c.fmt) == some 0 then "f=1" else "f≠1"
  s!"conv:{a}:{b}:{k}:{fk}"

def valueKey (x : Fl) : String :=
  match x with
  | .nan => "v:nan"
  | .inf _ => "v:inf"
  | .fin _ 0 _ => "v:zero"
  | .fin _ _ _ => "v:finite"

structure LineResult where
  outs : List Outcome
  keys : List String
  /-- non-trivial by the rule stated in the evidence (`rule`) -/
  nontrivial : Bool

def convNontrivial (c : ConvCase) : Bool :=
  let f := baseFactor (flS c.fmt) c.pows
  c.v.isFinite && !c.v.isZero &&
    (Fl.cmp c.coef (Fl.one c.fmt) != some 0 || Fl.cmp f (Fl.one c.fmt) != some 0 || !c.consA.isZero)

def handleLine (line : String) : Option LineResult :=
  match line.splitOn " " with
  | ["conv", vt, _base, _module, _unit, coef, consA, consS, pows, v, newObs, getObs, rtObs] => do
    let c ← convCase? vt coef consA consS pows v
    let S := flS c.fmt
    let f := baseFactor S c.pows
    let newObs ← flOf? c.fmt newObs
    let getObs ← flOf? c.fmt getObs
    let rtObs ← flOf? c.fmt rtObs
    let mNew := toBase S c.coef c.consA f c.v
    let mGet := fromBase S c.coef c.consS f c.v
    let mRt := fromBase S c.coef c.consS f mNew
    return ⟨[cmpFl c.fmt "new.model" mNew newObs, cmpFl c.fmt "get.model" mGet getObs,
             cmpFl c.fmt "rt.model" mRt rtObs,
             ofVerdict "new.oracle" (oracleNew c newObs), ofVerdict "get.oracle" (oracleGet c getObs),
             ofVerdict "rt.oracle" (oracleRoundTrip c rtObs)],
            [branchKey c, valueKey c.v, s!"type:{vt}"], convNontrivial c⟩
  | ["rnd", vt, _base, _module, _unit, coef, consA, consS, pows, v, o0, o1, o2, o3, o4] => do
    let c ← convCase? vt coef consA consS pows v
    let S := flS c.fmt
    let f := baseFactor S c.pows
    let obs ← [o0, o1, o2, o3, o4].mapM (flOf? c.fmt)
    let g := fromBase S c.coef c.consS f c.v
    let ops : List (Fl → Fl) := [Fl.floor c.fmt, Fl.ceil c.fmt, Fl.round c.fmt, Fl.trunc c.fmt, Fl.fract c.fmt]
    let names := ["floor", "ceil", "round", "trunc", "fract"]
    let model := ops.map fun op => toBase S c.coef c.consA f (op g)
    let outs := (List.zip names (List.zip model obs)).map fun (n, m, o) => cmpFl c.fmt s!"{n}.model" m o
    let orc := (List.zip (List.range 4) obs).map fun (i, o) => ofVerdict s!"{names[i]!}.oracle" (oracleRounding c i o)
    return ⟨outs ++ orc, ["rnd", valueKey c.v], convNontrivial c⟩
  | _ => none

end Uom
