import Uom.Model.Oracle
import Uom.Model.Ops
import Uom.Model.OpsOracle
import Uom.Model.Text
import Uom.Model.Duration
import Uom.Model.Dim
import Std.Data.HashMap
/-!
# Line protocol: one harness case per line → model recomputation + oracle verdicts
-/
namespace Uom

inductive Outcome where
  | ok
  | guard (why : String)
  | diff (tag : String) (detail : String)
  | prop (tag : String) (why : String)
deriving Repr, Inhabited

def flList? (f : Fmt) (s : String) : Option (List Fl) :=
  (s.splitOn ":").mapM (flOf? f)

/-- bit-level comparison of the model's value with the implementation's (NaNs canonicalised) -/
def cmpFl (f : Fmt) (tag : String) (model obs : Fl) : Outcome :=
  if Fl.toBits f model = Fl.toBits f obs then .ok
  else .diff tag s!"model={flHex f model} impl={flHex f obs}"

def ofVerdict (tag : String) : Verdict → Outcome
  | .pass => .ok
  | .fail why => .prop tag why
  | .guard why => .guard why

def convCase? (vt coef consA consS pows v : String) : Option ConvCase := do
  let f ← fmtOf? vt
  return { fmt := f, coef := ← flOf? f coef, consA := ← flOf? f consA, consS := ← flOf? f consS,
           pows := ← flList? f pows, v := ← flOf? f v }

/-- which branch of `to_base` / `from_base` the case takes, for the input distribution -/
def branchKey (c : ConvCase) : String :=
  let S := flS c.fmt
  let f := baseFactor S c.pows
  let a := if S.ge c.coef f then "to:ge" else "to:lt"
  let b := if S.lt c.coef f then "from:lt" else "from:ge"
  let k := if c.consA.isZero then "lin" else "affine"
  let fk := if Fl.cmp f (Fl.one c.fmt) == some 0 then "f=1" else "f≠1"
  s!"conv:{a}:{b}:{k}:{fk}"

def valueKey (x : Fl) : String :=
  match x with
  | .nan => "v:nan"
  | .inf _ => "v:inf"
  | .fin _ 0 _ => "v:zero"
  | .fin _ _ _ => "v:finite"

/-! ## the label / coefficient table (loaded from the Lean-generated dump that precedes the cases) -/

structure UnitRow where
  name : String
  labels : Labels
  /-- coef, consA, consS as f64 hex then f32 hex -/
  conv : Array String
deriving Inhabited

structure TextTable where
  units : Std.HashMap String (Array UnitRow) := {}
  dims : Std.HashMap String (List Int) := {}
  /-- kinds in generated order (name, marker indices) and the `impl_from!` pairs -/
  kinds : Array (String × List Nat) := #[]
  implFrom : List (Nat × Nat) := []
  qkind : Std.HashMap String String := {}

def bytesOfHex? (s : String) : Option Bytes :=
  if !s.startsWith "x" then none
  else
    let cs := (s.drop 1).toString.toList
    let rec go : List Char → Option Bytes
      | [] => some []
      | [_] => none
      | a :: b :: rest => do
        let x ← hexDigit? a
        let y ← hexDigit? b
        let r ← go rest
        return (x * 16 + y) :: r
    go cs

def hexOfBytes (b : Bytes) : String := "x" ++ String.join (b.map fun x => toHex x 2)

/-- `unit` / `quantity` lines of the dump extend the table -/
def TextTable.absorb (t : TextTable) (line : String) : Option TextTable :=
  match line.splitOn " " with
  | ["unit", m, _idx, name, abbr, sing, plur, c64, a64, s64, c32, a32, s32] => do
    let row : UnitRow := { name := name, labels := { abbr := ← bytesOfHex? abbr, sing := ← bytesOfHex? sing, plur := ← bytesOfHex? plur },
                           conv := #[c64, a64, s64, c32, a32, s32] }
    some { t with units := t.units.insert m ((t.units.getD m #[]).push row) }
  | ["quantity", m, _name, _desc, kind, dims] =>
    some { t with dims := t.dims.insert m ((dims.splitOn ",").filterMap parseInt?), qkind := t.qkind.insert m kind }
  | ["kind", _i, name, markers] =>
    some { t with kinds := t.kinds.push (name, (markers.splitOn ",").filterMap String.toNat?) }
  | ["implfrom", a, b] => do
    some { t with implFrom := t.implFrom ++ [(← a.toNat?, ← b.toNat?)] }
  | "base" :: _ => some t
  | _ => none

structure LineResult where
  outs : List Outcome
  keys : List String
  /-- non-trivial by the rule stated in the evidence (`rule`) -/
  nontrivial : Bool

def convNontrivial (c : ConvCase) : Bool :=
  let f := baseFactor (flS c.fmt) c.pows
  c.v.isFinite && !c.v.isZero &&
    (Fl.cmp c.coef (Fl.one c.fmt) != some 0 || Fl.cmp f (Fl.one c.fmt) != some 0 || !c.consA.isZero)

def handleBin (N : NumTy) (vt form ul ur lp rp a b obs : String) : Option LineResult := do
  let form ← BinForm.ofString? form
  let lps ← (lp.splitOn ":").mapM N.parseT
  let rps ← (rp.splitOn ":").mapM N.parseT
  let l := baseFactor N.S lps
  let r := baseFactor N.S rps
  let a ← N.parseV a
  let b ← N.parseV b
  let keys := [s!"bin:{vt}:{toString (repr form.raw)}", if ul == ur then "bases:same" else "bases:mixed"]
  let nontriv := ul != ur || !(N.eqV a b)
  if !(N.tOk l && N.tOk r) then return ⟨[.guard "fixed-width factor"], keys, false⟩
  let model := binOpOn N form l r a b
  let mo : Outcome := match Tri.showRes N model with
    | none => .guard "fixed-width intermediate"
    | some s => if s == obs then .ok else .diff s!"{vt}.{ul}.{ur}.model" s!"model={s} impl={obs}"
  let orc : Outcome := match fmtOf? vt with
    | some f => match flOf? f (N.showV a), flOf? f (N.showV b), flOf? f (N.showV (N.S.value l)), flOf? f (N.showV (N.S.value r)) with
      | some a, some b, some l, some r => ofVerdict s!"{vt}.oracle" (oracleBinFl f form.raw l r a b obs)
      | _, _, _, _ => .ok
    | none => .ok
  return ⟨[mo, orc], keys, nontriv⟩

def handleFrom (N : NumTy) (vt pair ul ur lp rp a obs : String) : Option LineResult := do
  let lps ← (lp.splitOn ":").mapM N.parseT
  let rps ← (rp.splitOn ":").mapM N.parseT
  let l := baseFactor N.S lps
  let r := baseFactor N.S rps
  let a ← N.parseV a
  let keys := [s!"from:{pair}", if ul == ur then "bases:same" else "bases:mixed"]
  if !(N.tOk l && N.tOk r) then return ⟨[.guard "fixed-width factor"], keys, false⟩
  let m := N.showV (kindFromOn N.S l r a)
  let mo : Outcome := if m == obs then .ok else .diff s!"from.{vt}.model" s!"model={m} impl={obs}"
  let orc : Outcome := match fmtOf? vt with
    | some f => match flOf? f (N.showV a), flOf? f (N.showV (N.S.value l)), flOf? f (N.showV (N.S.value r)), flOf? f obs with
      | some a, some l, some r, some o => ofVerdict s!"from.{vt}.oracle" (oracleFromFl f (ul == ur) l r a o)
      | _, _, _, _ => .ok
    | none => .ok
  return ⟨[mo, orc], keys, true⟩

/-- C07 same-base line: the oracle is the property itself (quantity result = bare-number result);
    where the model knows the raw arithmetic of the type it also recomputes the bare-number result -/
def handleSame (N : NumTy) (vt form a b qres rawres : String) : Option LineResult := do
  let base := (form.splitOn ":").head!
  let orc : Outcome := if qres == rawres then .ok
    else .prop s!"{vt}.{base}.oracle" "quantity-level result differs from the bare-number operation on the stored values"
  let keys := [s!"same:{vt}:{base}"]
  match sameFormRaw base with
  | some (op, swap) =>
    let a ← N.parseV a
    let b ← N.parseV b
    let m := if swap then rawBin N op b a else rawBin N op a b
    let mo : Outcome := match Tri.showRes N m with
      | none => .guard "fixed-width intermediate"
      | some s => if s == qres then .ok else .diff s!"{vt}.{base}.model" s!"model={s} impl={qres}"
    return ⟨[orc, mo], keys, !(N.eqV a b)⟩
  | none =>
    if forwardedForms.contains base then return ⟨[orc], keys, true⟩ else none

/-- complex storage (C20): the model is the code *as it is* (conversion factor of a value = its norm);
    the oracle is the property (both parts scaled by the real factor) -/
def handleCplx (f : Fmt) (c : ConvCase) (im norm : Fl) (obs : List Fl) : LineResult :=
  let S := cplxS f (fun _ => norm)
  let fac := baseFactor (flS f) c.pows
  let z : Fl × Fl := (c.v, im)
  let mNew := toBase S c.coef c.consA fac z
  let mGet := fromBase S c.coef c.consS fac z
  let o (i : Nat) : Fl := obs.getD i Fl.nan
  let models := [cmpFl f "cplx.new.re.model" mNew.1 (o 0), cmpFl f "cplx.new.im.model" mNew.2 (o 1),
                 cmpFl f "cplx.get.re.model" mGet.1 (o 2), cmpFl f "cplx.get.im.model" mGet.2 (o 3)]
  -- property: new(z) = ((re + c)·k, im·k): evaluated with the real conversion on each part
  let wantRe := toBase (flS f) c.coef c.consA fac c.v
  let wantIm := toBase (flS f) c.coef (Fl.zero f true) fac im
  let finite := c.v.isFinite && im.isFinite && wantRe.isFinite && wantIm.isFinite
  let close (a b : Fl) : Bool :=
    a.isFinite && b.isFinite && ratAbs (a.toRat - b.toRat) ≤ 8 * uro f * ratMax (ratAbs a.toRat) (ratAbs b.toRat)
  let orc : Outcome :=
    if !finite then .guard "non-finite"
    else if close (o 0) wantRe && close (o 1) wantIm then .ok
    else if Fl.toBits f (o 0) = Fl.toBits f mNew.1 && Fl.toBits f (o 1) = Fl.toBits f mNew.2 then
      .prop "cplx.F5" "complex conversion replaces the value by its modulus (stored = K·|z| + 0i): real and imaginary parts are not both scaled"
    else .prop "cplx.new.oracle" "complex conversion neither scales both parts nor matches the known modulus defect"
  let rtOrc : Outcome :=
    if !finite then .guard "non-finite"
    else if close (o 4) c.v && (close (o 5) im || (im.isZero && (o 5).isZero)) then .ok
    else if (o 5).isZero then .prop "cplx.F5" "complex construct-then-read returns |z| + 0i instead of z"
    else .prop "cplx.rt.oracle" "complex construct-then-read does not return the input"
  ⟨models ++ [orc, rtOrc], ["cplx", if im.isZero then "cplx:real" else "cplx:im≠0"], !im.isZero⟩

/-- exact / integer storage conversion line (C08, C09) -/
def handleConvx (N : NumTy) (isRat : Bool) (vt coef consA consS pows v newObs getObs rtObs : String) : Option LineResult := do
  let S := N.S
  let coef ← N.parseT coef
  let consA ← N.parseT consA
  let consS ← N.parseT consS
  let ps ← (pows.splitOn ":").mapM N.parseT
  let v ← N.parseV v
  let f := baseFactor S ps
  let keys := [s!"convx:{vt}", if S.ge coef f then "convx:to:ge" else "convx:to:lt"]
  -- fixed-width types: every intermediate of the taken branches must be comfortably small
  let cv := S.conv v
  let s := S.add cv consA
  let toOk := if S.ge coef f then N.tOk (S.div coef f) && N.tOk (S.mul s (S.div coef f))
              else N.tOk (S.mul s coef) && N.tOk (S.div (S.mul s coef) f)
  let fromOk := if S.lt coef f then N.tOk (S.div f coef) && N.tOk (S.mul cv (S.div f coef)) && N.tOk (S.sub (S.mul cv (S.div f coef)) consS)
                else N.tOk (S.div coef f) && N.tOk (S.div cv (S.div coef f)) && N.tOk (S.sub (S.div cv (S.div coef f)) consS)
  if !(N.tOk coef && N.tOk consA && N.tOk f && N.tOk cv && N.tOk s) then
    return ⟨[.guard "fixed-width intermediate"], keys, false⟩
  -- the error branch: Rust panics exactly when it divides by a zero ratio, and (unsigned factor
  -- types) when a subtraction would go below zero; the model's total `/` and `-` must not hide that
  let unsignedT := vt == "biguint" || vt == "u32" || vt == "u64"
  let isZeroT (x : S.T) : Bool := !(S.lt x (S.sub x x)) && !(S.lt (S.sub x x) x)
  let toPanics := isZeroT f
  let fromScaled (w : S.T) : S.T := if S.lt coef f then S.mul w (S.div f coef) else S.div w (S.div coef f)
  let fromPanics (w : S.T) : Bool :=
    (if S.lt coef f then isZeroT coef else (isZeroT f || isZeroT coef)) || (unsignedT && S.lt (fromScaled w) consS)
  let cmpS (tag : String) (m : S.V) (obs : String) (ok panics : Bool) : Outcome :=
    if panics then (if obs == "PANIC" then .ok else .diff s!"{vt}.{tag}" s!"model=PANIC impl={obs}")
    else if !ok then .guard "fixed-width intermediate"
    else if !(N.vOk m) then .guard "result does not fit"
    else if N.showV m == obs then .ok else .diff s!"{vt}.{tag}" s!"model={N.showV m} impl={obs}"
  let mNew := toBase S coef consA f v
  let mGet := fromBase S coef consS f v
  let mRt := fromBase S coef consS f mNew
  let rtOk := toOk && fromOk && N.tOk (S.conv mNew)
  let rtPanics := toPanics || fromPanics (S.conv mNew)
  -- oracle: for rational storage construct-then-read is the identity (exactly)
  let rtOracle : Outcome :=
    if !isRat || !rtOk || rtPanics then .ok
    else if rtObs == N.showV v then .ok
    else .prop s!"{vt}.rt.oracle" "construct-then-read in one unit is not the identity for rational storage"
  -- oracle (C08), stated on the conversion formula itself: exact for rational storage, truncated toward
  -- zero for integer storage (`V.value` of the formula's exact rational value)
  let fmla (tag : String) (exact : S.T) (obs : String) (ok panics : Bool) : Outcome :=
    if panics || !ok || obs == "PANIC" then .ok
    else
      let want := N.showV (S.value exact)
      if !(N.vOk (S.value exact)) then .ok
      else if want == obs then .ok
      else .prop s!"{vt}.{tag}" (if isRat then "result is not the exact rational value of the conversion formula"
                                   else "result is not the exact rational value of the conversion formula truncated toward zero")
  let newExact := S.div (S.mul (S.add cv consA) coef) f
  let getExact := S.sub (S.div (S.mul cv f) coef) consS
  return ⟨[cmpS "new.model" mNew newObs toOk toPanics, cmpS "get.model" mGet getObs fromOk (fromPanics cv),
           cmpS "rt.model" mRt rtObs rtOk rtPanics, rtOracle,
           fmla "new.oracle" newExact newObs toOk toPanics, fmla "get.oracle" getExact getObs fromOk (fromPanics cv)],
          keys, !(N.eqV v mNew)⟩

def strOutcome (tag : String) (model obs : Bytes) : Outcome :=
  if model == obs then .ok else .diff tag s!"model={hexOfBytes model} impl={hexOfBytes obs}"

def isOneV (N : NumTy) (vt : String) (x : String) : Bool :=
  match fmtOf? vt with
  | some f => match flOf? f x with | some v => Fl.isOne v | none => false
  | none => x == "1" || x == "1/1"

/-- C11: `format_args(unit, style).with(q)` under a format spec -/
def handleFmt (tbl : TextTable) (N : NumTy) (vt module idx style coef consS pows v x out rawfmt : String) : Option LineResult := do
  let rows ← tbl.units.get? module
  let row ← rows[idx.toNat?.getD 0]?
  let S := N.S
  let coefT ← N.parseT coef
  let consT ← N.parseT consS
  let f := baseFactor S (← (pows.splitOn ":").mapM N.parseT)
  let v ← N.parseV v
  let out ← bytesOfHex? out
  let raw ← bytesOfHex? rawfmt
  -- the value converted to the unit
  let mx := N.showV (fromBase S coefT consT f v)
  let convOk : Outcome := if !(N.tOk coefT && N.tOk f) then .guard "fixed-width factor"
    else if mx == x then .ok else .diff s!"fmt.{vt}.value.model" s!"model={mx} impl={x}"
  -- for float storage the published coefficient must be the table's
  -- (for a user-declared quantity or an added unit — C19 — the table row *is* the declaration in the
  -- macro invocation, so a mismatch is the property failing: the unit does not convert as declared)
  let isUsr := module.startsWith "usr." || module.startsWith "added."
  let mismatch (t c tc cc : String) : Outcome :=
    if isUsr then .prop "usr.decl.oracle" s!"the unit's published coefficient/offset ({c}, {cc}) is not the one declared in its macro invocation ({t}, {tc})"
    else .diff "fmt.table" s!"table={t},{tc} impl={c},{cc}"
  let tblOk : Outcome := match vt with
    | "f64" => if row.conv[0]! == coef && row.conv[2]! == consS then .ok else mismatch row.conv[0]! coef row.conv[2]! consS
    | "f32" => if row.conv[3]! == coef && row.conv[5]! == consS then .ok else mismatch row.conv[3]! coef row.conv[5]! consS
    | _ => .ok
  let st := if style == "a" then Style.abbreviation else Style.description
  let expect := fmtArgs (fun _ => raw) (fun _ => isOneV N vt x) row.labels st ()
  let orc : Outcome := if expect == out then .ok
    else .prop s!"fmt.{vt}.oracle" "output is not <storage type's formatting of the converted value> <space> <abbreviation | singular iff value is one | plural>"
  return ⟨[convOk, tblOk, orc], [s!"fmt:{vt}:{style}", if isOneV N vt x then "fmt:one" else "fmt:not-one"], true⟩

/-- C11: `Debug` of a bare quantity -/
def handleDbg (tbl : TextTable) (module : String) (baseMods baseUnits : List String) (out rawdbg : String) : Option LineResult := do
  let dim ← tbl.dims.get? module
  let abbrs ← (baseMods.zip baseUnits).mapM fun (m, u) => do
    let rows ← tbl.units.get? m
    let row ← rows.find? (fun r => r.name == u)
    return row.labels.abbr
  let expect := fmtDebug (← bytesOfHex? rawdbg) abbrs dim
  let o ← bytesOfHex? out
  return ⟨[if expect == o then .ok else .prop "dbg.oracle" s!"Debug output is not <value> followed by ` <base abbreviation>^<exponent>` for the non-zero exponents in system order (expected {hexOfBytes expect})"],
          ["dbg"], dim.any (· != 0)⟩

/-- C12: `from_str` -/
def handleParse (tbl : TextTable) (vt module pows input numpart numparse result : String) : Option LineResult := do
  let f ← fmtOf? vt
  let rows ← tbl.units.get? module
  let S := flS f
  let fac := baseFactor S (← flList? f pows)
  let inp ← bytesOfHex? input
  let off := if vt == "f64" then 0 else 3
  let parse (num : Bytes) : Option Fl :=
    -- `V::from_str` is a parameter: the harness parsed the number part; it must be the part the model splits off
    if hexOfBytes num == numpart then (if numparse.startsWith "ok:" then flOf? f (numparse.drop 3).toString else none) else none
  let splitOk : Outcome := match splitFirstSpace inp with
    | none => if numpart == "-" then .ok else .diff "parse.split" "model finds no separator"
    | some (num, _) => if hexOfBytes num == numpart then .ok else .diff "parse.split" s!"model number part={hexOfBytes num} impl={numpart}"
  let mk (i : Nat) (v : Fl) : String :=
    match rows[i]? with
    | some row => match flOf? f row.conv[off]!, flOf? f row.conv[off + 1]! with
      | some c, some a => "ok:" ++ flHex f (toBase S c a fac v)
      | _, _ => "?"
    | none => "?"
  let m : String := match fromStr (rows.toList.map (·.labels)) parse mk inp with
    | .ok s => s
    | .noSeparator => "nosep"
    | .valueParseError => "badnum"
    | .unknownUnit => "unknown"
  let key := if m.startsWith "ok:" then "parse:ok" else s!"parse:{m}"
  -- the property stated clause by clause on the observed result (not by running `fromStr`):
  -- no U+0020 ⇒ NoSeparator; else a number part the storage type rejects ⇒ ValueParseError, whatever
  -- follows; else success exactly when the rest, blanks trimmed, is one of the quantity's labels
  let hasSpace := inp.contains 0x20
  let rest := (inp.dropWhile (· != 0x20)).drop 1
  let registered := rows.any fun row => row.labels.abbr == trim rest || row.labels.sing == trim rest || row.labels.plur == trim rest
  let orc : Outcome :=
    if result == "PANIC" then .prop "parse.panic" "from_str panicked"
    else if !hasSpace then (if result == "nosep" then .ok else .prop "parse.oracle" s!"input without a U+0020 separator is answered {result}, not NoSeparator")
    else if numparse == "bad" then (if result == "badnum" then .ok else .prop "parse.oracle" s!"a number part the storage type rejects is answered {result}, not ValueParseError (precedence: separator, number, unit)")
    else if !numparse.startsWith "ok:" then .ok
    else if registered then (if result.startsWith "ok:" then .ok else .prop "parse.oracle" s!"a parsable number and a registered label are answered {result}")
    else (if result == "unknown" then .ok else .prop "parse.oracle" s!"a label that is not registered for the quantity is answered {result}, not UnknownUnit")
  return ⟨[splitOk, if m == result then .ok else .diff s!"parse.{vt}.model" s!"model={m} impl={result}", orc], [key], true⟩

/-- C12: format in a registered unit, parse the text back: the original quantity up to conversion rounding -/
def handleParseRt (tbl : TextTable) (vt module idx pows v back : String) : Option LineResult := do
  let f ← fmtOf? vt
  let rows ← tbl.units.get? module
  let row ← rows[idx.toNat?.getD 0]?
  let off := if vt == "f64" then 0 else 3
  let coef ← flOf? f row.conv[off]!
  let consA ← flOf? f row.conv[off + 1]!
  let consS ← flOf? f row.conv[off + 2]!
  let pw ← flList? f pows
  let v ← flOf? f v
  if !back.startsWith "ok:" then
    return ⟨[.prop "parse.rt.oracle" s!"formatting then parsing failed with {back}"], ["prt"], true⟩
  let b ← flOf? f (back.drop 3).toString
  let S := flS f
  let fac := baseFactor S pw
  let c : ConvCase := { fmt := f, coef := coef, consA := consA, consS := consS, pows := pw, v := v }
  if !v.isFinite then
    return ⟨[if Fl.toBits f b = Fl.toBits f (toBase S coef consA fac (fromBase S coef consS fac v)) then .ok else .diff "parse.rt.model" "non-finite round trip differs"], ["prt:nonfinite"], false⟩
  let x := fromBase S coef consS fac v
  if !(fromBaseNormal c fac) || !(toBaseNormal { c with v := x } fac) || !b.isFinite then
    return ⟨[.guard "overflow/underflow"], ["prt"], false⟩
  let u := uro f
  let k := ratAbs (consA.toRat * coef.toRat / fac.toRat)
  let ok := ratAbs (b.toRat - v.toRat) ≤ 8 * u * (ratAbs v.toRat + k)
  return ⟨[if ok then .ok else .prop "parse.rt.oracle" "format-then-parse is more than 8u·(|v| + |offset|) away from the original stored value"], ["prt"], true⟩

/-! ## C14 -/

def piBits (f : Fmt) : Nat := if f.p == 53 then 0x400921fb54442d18 else 0x40490fdb

/-- the oracle of `handleDurFl` on the observed result `obs` (`m` is what the model prints; it only
    decides whether a failure is the recorded finding F4 or a new one) -/
def oracleDurFl (f : Fmt) (fac cs _cn v : Fl) (m obs : String) : Outcome :=
  let secondBase := Fl.cmp fac cs == some 0
  let t : Rat := v.toRat * fac.toRat / cs.toRat          -- the time in seconds, exactly
  let two64 : Rat := ((2 ^ 64 : Nat) : Rat)
  let u := uro f
  if obs == "PANIC" then .prop "dur.panic" "Duration::try_from panicked"
  else if v.isNan then (if obs == "overflow" then .ok else .prop "dur.class" "NaN must report Overflow")
  else if Fl.lt v (Fl.zero f false) then (if obs == "neg" then .ok else .prop "dur.class" "a strictly negative time must report NegativeDuration")
  else if obs == "neg" then .prop "dur.class" "NegativeDuration reported for a time that is not strictly negative"
  else if !v.isFinite then (if obs == "overflow" then .ok else .prop "dur.class" "+inf must report Overflow")
  else if t ≥ two64 * (1 + 4 * u) then (if obs == "overflow" then .ok else .prop "dur.class" "2^64 seconds or more must report Overflow")
  else if obs == "overflow" then
    (if t ≥ two64 * (1 - 4 * u) then .guard "within a few ulps of 2^64 s"
     else if !secondBase && m == obs then .prop "dur.F4" "Overflow for a representable time stored in a non-second base unit"
     else .prop "dur.class" "Overflow reported for a representable time")
  else match obs.splitOn ":" with
    | ["ok", s, n] => match s.toNat?, n.toNat? with
      | some s, some n =>
        let d : Rat := (s : Rat) + (n : Rat) / 1000000000
        if ratAbs (d - t) ≤ 1 / 1000000000 + 4 * u * t then .ok
        else if !secondBase && m == obs then
          .prop "dur.F4" "time stored in a non-second base unit: Duration off by more than 1 ns + 4u (seconds and sub-second part are computed from differently rounded numbers)"
        else .prop "dur.accuracy" "Duration is more than 1 ns + 4u away from the time's magnitude"
      | _, _ => .prop "dur.class" "unreadable result"
    | _ => .prop "dur.class" "unreadable result"

/-- roundings that reach the result of `powi` by repeated squaring, *counted with multiplicity*: an early
    rounding error is squared by every later squaring, so the relative error of `c^e` is `(|e| − 1)·u`, and
    `(2|e| − 1)·u` for a negative exponent (the reciprocal's rounding is raised to the power as well) -/
def powErr (e : Int) : Nat := if e < 0 then 2 * e.natAbs - 1 else e.natAbs - 1

/-- the oracle of the `pow` / complex `xpow` lines: the observed `o` against the exact power `c ^ e`.
    (As first written the tolerance counted the *operations* of the by-squaring loop, `2·log2|e| + 1`; the
    soundness proof could not be closed and produced kernel-checked inputs with `|e| ≥ 32` on which the
    model's own result was rejected — `Proofs/DurPowOracleSound.lean`. No run had used such an exponent.) -/
def oraclePowFl (f : Fmt) (c : Fl) (e : Int) (o : Fl) : Outcome :=
  if !(c.isFinite && o.isFinite) || c.isZero then .guard "non-finite"
  else
    let exact : Rat := c.toRat ^ e
    let k : Rat := ((max 1 (powErr e) : Nat) : Rat)
    if !(Fl.isNormal f o) then .guard "overflow/underflow"
    else if ratAbs (o.toRat - exact) ≤ 2 * k * uro f * ratAbs exact then .ok
    else .prop "pow.oracle" "a factor of the base-unit combination is not the base unit's coefficient raised to the quantity's exponent"

/-- the tolerance as first written (kept for the witnesses of the false alarm it could raise) -/
def oraclePowFlOld (f : Fmt) (c : Fl) (e : Int) (o : Fl) : Outcome :=
  if !(c.isFinite && o.isFinite) || c.isZero then .guard "non-finite"
  else
    let exact : Rat := c.toRat ^ e
    let k : Rat := (2 * (e.natAbs.log2 + 1) + 1 : Nat)
    if !(Fl.isNormal f o) then .guard "overflow/underflow"
    else if ratAbs (o.toRat - exact) ≤ 2 * k * uro f * ratAbs exact then .ok
    else .prop "pow.oracle" "a factor of the base-unit combination is not the base unit's coefficient raised to the quantity's exponent"

def handleDurFl (f : Fmt) (vt base pows cs cn v obs : String) : Option LineResult := do
  let fac := baseFactor (flS f) (← flList? f pows)
  let cs ← flOf? f cs
  let cn ← flOf? f cn
  let v ← flOf? f v
  let m := (durOfTimeFl f fac cs cn v).show
  let mo : Outcome := if m == obs then .ok else .diff s!"dur.{vt}.model" s!"model={m} impl={obs}"
  -- oracle on the observed result
  let orc : Outcome := oracleDurFl f fac cs cn v m obs
  return ⟨[mo, orc], [s!"dur:{vt}:{base}", s!"dur:{(obs.splitOn ":").head!}"], true⟩

/-- the oracle of `handleTimFl` on the observed result `obs` for the Duration `s` s + `n` ns -/
def oracleTimFl (f : Fmt) (fac cs : Fl) (s n : Nat) (obs : String) : Outcome :=
  if !obs.startsWith "ok:" then .prop "tim.class" "float storage can hold every Duration (possibly as infinity): no error expected"
  else match flOf? f (obs.drop 3).toString with
    | none => .prop "tim.class" "unreadable"
    | some o =>
      let d : Rat := (s : Rat) + (n : Rat) / 1000000000
      if !o.isFinite then (if d * cs.toRat / fac.toRat > Fl.toRat (Fl.fin false (2 ^ f.p - 1) f.emax) / 2 then .guard "overflow/underflow" else .prop "tim.accuracy" "non-finite time")
      else
        let t := o.toRat * fac.toRat / cs.toRat
        if ratAbs (t - d) ≤ 8 * uro f * d then .ok else .prop "tim.accuracy" "time is more than 8u away from seconds + nanoseconds"

def handleTimFl (f : Fmt) (vt base pows cs cn secs nanos obs : String) : Option LineResult := do
  let fac := baseFactor (flS f) (← flList? f pows)
  let cs ← flOf? f cs
  let cn ← flOf? f cn
  let s ← secs.toNat?
  let n ← nanos.toNat?
  let m := "ok:" ++ flHex f (timeOfDurFl f fac cs cn s n)
  let mo : Outcome := if m == obs then .ok else .diff s!"tim.{vt}.model" s!"model={m} impl={obs}"
  let orc : Outcome := oracleTimFl f fac cs s n obs
  return ⟨[mo, orc], [s!"tim:{vt}:{base}"], s != 0 || n != 0⟩

/-- (bits, signed) of a fixed-width integer storage type; `none` for the arbitrary-precision ones -/
def intInfo (vt : String) : Option (Nat × Bool) :=
  match vt with
  | "i32" => some (32, true) | "i64" => some (64, true) | "isize" => some (64, true)
  | "u32" => some (32, false) | "u64" => some (64, false) | _ => none

def intSmall (vt : String) (r : Rat) : Bool :=
  match intInfo vt with | some (b, _) => ratSmall b r | none => true

def intFits (vt : String) (x : Int) : Bool :=
  match intInfo vt with
  | some (b, true) => decide (-(2 ^ (b - 1) : Nat) ≤ x ∧ x < (2 ^ (b - 1) : Nat))
  | some (b, false) => decide (0 ≤ x ∧ x < (2 ^ b : Nat))
  | none => vt != "biguint" || decide (0 ≤ x)

/-- integer storage: the model is exact arithmetic; fixed-width overflow is only *predicted* while every
    intermediate is small, but "never panics" is judged always -/
def handleDurInt (vt base pows cs cn v obs : String) : Option LineResult := do
  if pows == "PANIC" then return ⟨[.prop "dur.panic" "computing the base factor panics"], [s!"dur:{vt}:{base}"], true⟩
  let ps ← (pows.splitOn ":").mapM parseRat?
  let fac := baseFactor ratS ps
  let cs ← parseRat? cs
  let cn ← parseRat? cn
  let v ← parseInt? v
  let m := durOfTimeInt fac cs cn v
  let sm := intSmall vt
  let small := sm fac && sm cs && sm cn && sm (v : Rat) && sm ((v : Rat) * fac / cs) && sm ((v : Rat) * 1000000000)
  let mo : Outcome := if !small then .guard "fixed-width intermediate"
    else if m.show == obs then .ok else .diff s!"dur.{vt}.model" s!"model={m.show} impl={obs}"
  let orc : Outcome :=
    if obs == "PANIC" then
      (if m == .panic && ratTrunc (cs / fac) == 0 then
        .prop "dur.F10" "integer storage with a time base unit longer than a second: new::<second>(1) truncates to zero and `time % 0` panics"
       else if m == .panic then .prop "dur.F10" "integer storage: a conversion coefficient is published as zero and the conversion divides by it"
       else if !small then .prop "dur.F11" "integer storage: an intermediate of the conversion overflows the fixed-width ratio and panics instead of reporting Overflow"
       else .prop "dur.panic" "Duration::try_from panicked")
    else if v < 0 then (if obs == "neg" then .ok else .prop "dur.class" "negative time must report NegativeDuration")
    else if obs == "neg" then .prop "dur.class" "NegativeDuration for a non-negative time"
    else match obs.splitOn ":" with
      | ["ok", so, no] =>
        -- accuracy: integers have no ulps — the Duration is within one nanosecond of the time's magnitude
        match so.toNat?, no.toNat? with
        | some so, some no =>
          if cs == 0 then .ok
          else
            let t : Rat := (v : Rat) * fac / cs
            if ratAbs ((so : Rat) + (no : Rat) / 1000000000 - t) ≤ 1 / 1000000000 then .ok
            else .prop "dur.int.acc" "integer storage: the Duration is more than one nanosecond away from the time's magnitude"
        | _, _ => .ok
      | _ => .ok
  return ⟨[mo, orc], [s!"dur:{vt}:{base}", s!"dur:{(obs.splitOn ":").head!}"], true⟩

def handleTimInt (vt base pows cs cn secs nanos obs : String) : Option LineResult := do
  if pows == "PANIC" then return ⟨[.prop "tim.panic" "computing the base factor panics"], [s!"tim:{vt}:{base}"], true⟩
  let ps ← (pows.splitOn ":").mapM parseRat?
  let fac := baseFactor ratS ps
  let cs ← parseRat? cs
  let cn ← parseRat? cn
  let s ← secs.toNat?
  let n ← nanos.toNat?
  -- from_u64 / from_u32 fail when the count does not fit the storage type
  let fits (x : Nat) : Bool := intFits vt (x : Int)
  let exact : Int := ratTrunc ((s : Rat) * cs / fac) + ratTrunc ((n : Rat) * cn / fac)
  let m : String := if !(fits s && fits n) then "overflow" else if intFits vt exact then s!"ok:{exact}" else "PANIC"
  let sm := intSmall vt
  let small := sm fac && sm cs && sm cn && sm (s : Rat) && sm (n : Rat) && sm ((s : Rat) * cs / fac) && sm ((n : Rat) * cn / fac)
  let mo : Outcome := if !small then .guard "fixed-width intermediate"
    else if m == obs then .ok else .diff s!"tim.{vt}.model" s!"model={m} impl={obs}"
  let orc : Outcome :=
    if obs == "PANIC" then
      (if !small || !(intFits vt exact) then .prop "dur.F11" "integer storage: the count or an intermediate overflows and the conversion panics instead of reporting Overflow"
       else .prop "tim.panic" "Time::try_from panicked")
    else if !(fits s && fits n) then (if obs == "overflow" then .ok else .prop "tim.class" "a count the storage type cannot hold must report Overflow")
    else match obs.splitOn ":" with
      | ["ok", xs] =>
        -- accuracy: integers have no ulps — the stored count is within two base units (one truncation per term)
        -- of seconds + nanoseconds expressed in the base unit
        match parseInt? xs with
        | some x =>
          if fac == 0 || cs == 0 then .ok
          else
            let d : Rat := ((s : Rat) + (n : Rat) / 1000000000) * cs / fac
            if ratAbs ((x : Rat) - d) ≤ 2 then .ok
            else .prop "tim.int.acc" "integer storage: the time is more than two base units away from seconds + nanoseconds"
        | none => .ok
      | _ => .ok
  return ⟨[mo, orc], [s!"tim:{vt}:{base}"], true⟩

/-! ## C18 -/

def handleForward (tag : String) (f : Fmt) (row : UnitRow) (x stored res raw : String) (key : String) : Option LineResult := do
  let off := if f.p == 53 then 0 else 3
  let coef ← flOf? f row.conv[off]!
  let consA ← flOf? f row.conv[off + 1]!
  let xv ← flOf? f x
  -- angle and ratio are dimensionless: the base factor is `1` in every base-unit set
  let m := flHex f (toBase (flS f) coef consA (Fl.one f) xv)
  return ⟨[if m == stored then .ok else .diff s!"{tag}.stored.model" s!"model={m} impl={stored}",
           if res == raw then .ok else .prop s!"{tag}.oracle" "result is not the storage type's function of the stored dimensionless magnitude"],
          [key], true⟩

def handleCst (tbl : TextTable) (vt name value module idx back : String) : Option LineResult := do
  let f ← fmtOf? vt
  let rows ← tbl.units.get? module
  let row ← rows[idx.toNat?.getD 0]?
  let off := if f.p == 53 then 0 else 3
  let coef ← flOf? f row.conv[off]!
  let consS ← flOf? f row.conv[off + 2]!
  let v ← flOf? f value
  let b ← flOf? f back
  let pi := Fl.ofBits f (piBits f)
  let k : Nat := if name == "HALF_TURN" then 1 else if name == "FULL_TURN" then 2 else 4
  let want := Fl.mul f (Fl.ofNat f k) pi
  let mBack := fromBase (flS f) coef consS (Fl.one f) v
  -- the published constants are exact: half turn = 180° = π rad = ½ r, full turn = 1 r = 360°, sphere = 4π sr = 1 sp
  let exactWant : Option Fl := match name, row.name with
    | "HALF_TURN", "degree" => some (Fl.ofNat f 180)
    | "HALF_TURN", "radian" => some pi
    | "HALF_TURN", "revolution" => some (Fl.div f (Fl.one f) (Fl.ofNat f 2))
    | "FULL_TURN", "revolution" => some (Fl.one f)
    | "FULL_TURN", "degree" => some (Fl.ofNat f 360)
    | "FULL_TURN", "radian" => some want
    | "SPHERE", "steradian" => some want
    | "SPHERE", "spat" => some (Fl.one f)
    | _, _ => none
  return ⟨[cmpFl f "cst.value.model" want v, cmpFl f "cst.get.model" mBack b,
           match exactWant with
           | some w => if Fl.toBits f w = Fl.toBits f b then .ok else .prop "cst.oracle" s!"{name} read in {row.name} is not exact"
           | none => .ok], [s!"cst:{name}"], true⟩

/-! ## C01 / C02: type-level probes -/

def TextTable.kindIdx (t : TextTable) (name : String) : Option Nat := t.kinds.findIdx? (·.1 == name)

def TextTable.env (t : TextTable) : Option TyEnv := do
  let ttk ← t.kindIdx (← t.qkind.get? "thermodynamic_temperature")
  let tik ← t.kindIdx (← t.qkind.get? "temperature_interval")
  return { kinds := t.kinds.toList.map fun (n, ms) => { name := Str.ofString n, markers := ms },
           implFrom := t.implFrom,
           tt := ⟨← t.dims.get? "thermodynamic_temperature", ttk⟩, ti := ⟨← t.dims.get? "temperature_interval", tik⟩ }

def parseDims (s : String) : List Int := (s.splitOn ",").filterMap parseInt?

def showQTy (t : TextTable) (q : QTy) : String :=
  ",".intercalate (q.dim.map toString) ++ " " ++ (match t.kinds[q.kind]? with | some k => k.1 | none => "?")

/-- C01: the dimension and kind the real result type has (read at run time through `to_i32` / `type_name`) -/
def handleDim (t : TextTable) (form da ka db kb e dres kres : String) : Option LineResult := do
  let A : QTy := ⟨parseDims da, ← t.kindIdx ka⟩
  let B : QTy := ⟨parseDims db, ← t.kindIdx kb⟩
  let ei ← parseInt? e
  let m : Option QTy := match form with
    | "mul" => some (outMul A B) | "div" => some (outDiv A B) | "recip" => some (outRecip A)
    | "powi" => some (outPowi A ei) | "sqrt" => outRoot 2 A | "cbrt" => outRoot 3 A
    | "mul_add" => some (outMulAdd A B) | "kmul" => some (outScalarLeftMul A) | "kdiv" => some (outScalarLeftDiv A)
    | "keep" => some (outPreserving A)
    | _ => none
  let obs := dres ++ " " ++ kres
  let mo : Outcome := match m with
    | some q => if showQTy t q == obs then .ok else .diff s!"dim.{form}.model" s!"model={showQTy t q} impl={obs}"
    | none => .diff s!"dim.{form}.model" "the model says this program has no result type"
  -- oracle: dimensional analysis, written independently of the templates
  let od := parseDims dres
  let arith (f : Int → Int → Int) : Bool := od == (List.zip A.dim B.dim).map (fun p => f p.1 p.2)
  let okDim : Bool := match form with
    | "mul" | "mul_add" => arith (· + ·)
    | "div" => arith (· - ·)
    | "recip" | "kdiv" => od == A.dim.map (fun d => -d)
    | "powi" => od == A.dim.map (fun d => d * ei)
    | "sqrt" => od.map (fun d => 2 * d) == A.dim
    | "cbrt" => od.map (fun d => 3 * d) == A.dim
    | _ => od == A.dim
  let okKind : Bool := match form with
    | "kmul" | "kdiv" | "keep" => kres == ka
    | _ => kres == "Kind"
  return ⟨[mo, if okDim && okKind then .ok else .prop s!"dim.{form}.oracle" "result type does not carry the exponents / kind dimensional analysis prescribes"],
          [s!"dim:{form}"], A.dim != B.dim || form != "mul"⟩

/-- C02: rustc's verdict on a probe function against the acceptance relation -/
def handleAcc (t : TextTable) (form da ka db kb same obs : String) : Option LineResult := do
  let e ← t.env
  let f ← Form.ofString? form
  let A : QTy := ⟨parseDims da, ← t.kindIdx ka⟩
  let B : QTy := ⟨parseDims db, ← t.kindIdx kb⟩
  let m := accepts e f A B (same == "1")
  let o := obs == "1"
  let mo : Outcome := if m == o then .ok else .diff s!"acc.{form}.model" s!"model={if m then "compiles" else "rejected"} rustc={if o then "compiles" else "rejected"}"
  -- oracle: the property, stated directly
  let differ := A != B
  let isTemp := (A == e.tt && B == e.ti) || (A == e.ti && B == e.tt)
  let orc : Outcome :=
    match f with
    | .add | .sub | .adda | .suba =>
      -- the only cross-kind forms: point ± interval, point ±= interval (result: point) and interval + point
      let allowed := (A == e.tt && B == e.ti) || (f == .add && A == e.ti && B == e.tt)
      if differ && isTemp && !allowed && o then .prop s!"acc.{form}.oracle" "temperature arithmetic other than point ± interval / interval + point compiles (interval − point, interval ±= point)"
      else if differ && !isTemp && o then .prop s!"acc.{form}.oracle" "additive arithmetic between different dimensions/kinds compiles"
      else if A == e.tt && B == e.tt && o then .prop s!"acc.{form}.oracle" "two temperature points can be added/subtracted"
      else .ok
    | .rem | .rema | .eq | .lt | .pcmp | .ordmax | .letbind | .hypot | .atan2 =>
      if differ && o then .prop s!"acc.{form}.oracle" "a program mixing different dimensions/kinds compiles" else .ok
    | .newf | .getf | .fmtargs | .fmtwith | .floorf => if same == "0" && o then .prop s!"acc.{form}.oracle" "a unit of another quantity is accepted" else .ok
    | .from_ =>
      if differ && o && !(A.dim == B.dim && (A.kind == 0 || B.kind == 0)) then .prop "acc.from.oracle" "a conversion between different dimensions or two non-default kinds compiles"
      else if differ && o && (A.kind == e.tt.kind || B.kind == e.tt.kind) then .prop "acc.from.oracle" "a conversion between the temperature kind and the default kind compiles (a point is not an interval)"
      else .ok
    | .sqrt => if o && !(A.dim.all (· % 2 == 0)) then .prop "acc.sqrt.oracle" "a root of non-divisible exponents compiles" else .ok
    | .cbrt => if o && !(A.dim.all (· % 3 == 0)) then .prop "acc.cbrt.oracle" "a root of non-divisible exponents compiles" else .ok
    | .neg => .ok
    | .satadd | .satsub | .sum | .sumref | .addref | .subref | .addaref =>
      if differ && o then .prop s!"acc.{form}.oracle" "a program accumulating / saturating-adding different dimensions/kinds compiles"
      else if A == e.tt && B == e.tt && o then .prop s!"acc.{form}.oracle" "two temperature points can be added/subtracted (saturating / summed)"
      else .ok
  return ⟨[mo, orc], [s!"acc:{form}:{if o then "compiles" else "rejected"}"], differ⟩

def handleLine (tbl : TextTable) (line : String) : Option LineResult :=
  match line.splitOn " " with
  | ["conv", vt, _base, _module, _unit, coef, consA, consS, pows, v, newObs, getObs, rtObs] => do
    let c ← convCase? vt coef consA consS pows v
    let S := flS c.fmt
    let f := baseFactor S c.pows
    let newObs ← flOf? c.fmt newObs
    let getObs ← flOf? c.fmt getObs
    let rtObs ← flOf? c.fmt rtObs
    let mNew := toBase S c.coef c.consA f c.v
    let mGet := fromBase S c.coef c.consS f c.v
    let mRt := fromBase S c.coef c.consS f mNew
    return ⟨[cmpFl c.fmt "new.model" mNew newObs, cmpFl c.fmt "get.model" mGet getObs,
             cmpFl c.fmt "rt.model" mRt rtObs,
             ofVerdict "new.oracle" (oracleNew c newObs), ofVerdict "get.oracle" (oracleGet c getObs),
             ofVerdict "rt.oracle" (oracleRoundTrip c rtObs)],
            [branchKey c, valueKey c.v, s!"type:{vt}"], convNontrivial c⟩
  | ["rnd", vt, _base, _module, _unit, coef, consA, consS, pows, v, gObs, o0, o1, o2, o3, o4] => do
    let c ← convCase? vt coef consA consS pows v
    let S := flS c.fmt
    let f := baseFactor S c.pows
    let obs ← [o0, o1, o2, o3, o4].mapM (flOf? c.fmt)
    let g := fromBase S c.coef c.consS f c.v
    let ops : List (Fl → Fl) := [Fl.floor c.fmt, Fl.ceil c.fmt, Fl.round c.fmt, Fl.trunc c.fmt, Fl.fract c.fmt]
    let names := ["floor", "ceil", "round", "trunc", "fract"]
    let model := ops.map fun op => toBase S c.coef c.consA f (op g)
    let outs := (List.zip names (List.zip model obs)).map fun (n, m, o) => cmpFl c.fmt s!"{n}.model" m o
    let gObs ← flOf? c.fmt gObs
    let orc := (List.zip (List.range 4) obs).map fun (i, o) => ofVerdict s!"{names[i]!}.oracle" (oracleRounding c i o)
    -- the standard rounding of the value the implementation itself reads in the unit
    let orc2 := (List.zip (List.range 5) obs).map fun (i, o) => ofVerdict s!"{names[i]!}.std.oracle" (oracleStdRounding c i gObs o)
    return ⟨outs ++ [cmpFl c.fmt "rnd.get.model" g gObs] ++ orc ++ orc2, ["rnd", valueKey c.v], convNontrivial c⟩
  | ["bin", vt, "hypot", _q, ul, ur, lp, rp, a, b, obs] => do
    -- `hypot` is a libm function: a parameter of the model; only the oracle applies
    let f ← fmtOf? vt
    let l := baseFactor (flS f) (← flList? f lp)
    let r := baseFactor (flS f) (← flList? f rp)
    return ⟨[ofVerdict s!"{vt}.hypot.oracle" (oracleHypot f l r (← flOf? f a) (← flOf? f b) (← flOf? f obs))],
            ["bin:hypot", if ul == ur then "bases:same" else "bases:mixed"], true⟩
  | ["bin", vt, form, _q, ul, ur, lp, rp, a, b, obs] =>
    match numTy? vt with
    | some N => handleBin N vt form ul ur lp rp a b obs
    | none => none
  | ["mad", vt, _q, _u, _ua, _ub, lpa, rpa, lpb, rpb, x, a, b, obs] => do
    let f ← fmtOf? vt
    let S := flS f
    let la := baseFactor S (← flList? f lpa)
    let ra := baseFactor S (← flList? f rpa)
    let lb := baseFactor S (← flList? f lpb)
    let rb := baseFactor S (← flList? f rpb)
    let x ← flOf? f x
    let a ← flOf? f a
    let b ← flOf? f b
    let obs ← flOf? f obs
    return ⟨[cmpFl f "mad.model" (mulAddOn f la ra lb rb x a b) obs,
             ofVerdict "mad.oracle" (oracleMulAdd f la ra lb rb x a b obs)], ["mad"], true⟩
  | ["from", vt, pair, ul, ur, lp, rp, a, obs] =>
    match numTy? vt with
    | some N => handleFrom N vt pair ul ur lp rp a obs
    | none => none
  | ["convx", vt, _base, module, unit, coef, consA, consS, pows, v, newObs, getObs, rtObs] =>
    match numTy? vt with
    | some N => do
      let r ← handleConvx N (vt == "bigrational" || vt == "rational64") vt coef consA consS pows v newObs getObs rtObs
      -- arbitrary-precision storage takes the unit's coefficient and offset from the f64 literal *exactly*
      -- (`Ratio::<BigInt>::from_f64`): what it publishes must be the declared value (table row, when the
      -- dump precedes the cases); fixed-width types approximate and are not judged here
      let big := vt == "bigrational" || vt == "bigint" || vt == "biguint"
      let decl : Outcome :=
        if !big then .ok else
        match (tbl.units.get? module).bind (fun rows => rows.find? (fun row => row.name == unit)) with
        | none => .ok
        | some row =>
          match flOf? b64 row.conv[0]!, flOf? b64 row.conv[1]!, flOf? b64 row.conv[2]!, parseRat? coef, parseRat? consA, parseRat? consS with
          | some c, some a, some s', some pc, some pa, some ps =>
            -- (within one binary64 ulp of the literal's f64 value: the exact expansion the code uses today
            --  passes, and so would a more faithful reading of the decimal literal; 0, a panic or another
            --  unit's coefficient do not)
            let near (p x : Rat) : Bool := ratAbs (p - x) ≤ ratAbs x / 4503599627370496
            if near pc c.toRat && near pa a.toRat && near ps s'.toRat then .ok
            else .prop "exact.decl.oracle" s!"{vt} publishes coefficient/offsets ({coef}, {consA}, {consS}) for {module}::{unit}; the unit declares {showRat c.toRat}, {showRat a.toRat}"
          | _, _, _, _, _, _ => .ok
      return { r with outs := r.outs ++ [decl] }
    | none => none
  | ["skip", vt, _base, module, unit] =>
    -- a coefficient the storage type cannot represent (the conversion panics): tolerated for fixed-width
    -- types; arbitrary-precision types can represent every declared coefficient
    if vt == "bigrational" || vt == "bigint" || vt == "biguint" then
      some ⟨[.prop "exact.decl.oracle" s!"{vt}: the coefficient of {module}::{unit} cannot be computed (panic) although the storage type is unbounded"], [s!"skip:{vt}"], true⟩
    else some ⟨[.guard "coefficient not representable"], [s!"skip:{vt}"], false⟩
  | ["cplx", vt, _base, module, unit, coef, consA, consS, pows, re, im, norm, nre, nim, gre, gim, rre, rim] => do
    let f ← fmtOf? (if vt == "complex64" then "f64" else "f32")
    let c ← convCase? (if vt == "complex64" then "f64" else "f32") coef consA consS pows re
    let im ← flOf? f im
    let norm ← flOf? f norm
    let obs ← [nre, nim, gre, gim, rre, rim].mapM (flOf? f)
    let r := handleCplx f c im norm obs
    -- "the real conversion factor … a real offset, if any": what complex storage publishes for the unit
    -- must be what the unit declares (the table regenerated from src/si, when the dump precedes the cases)
    let decl : Outcome :=
      match (tbl.units.get? module).bind (fun rows => rows.find? (fun row => row.name == unit)) with
      | none => .ok
      | some row =>
        let o := if vt == "complex64" then 0 else 3
        -- (a zero offset may carry either sign: complex conversion goes through a norm, never negative)
        let sameC (a b : String) : Bool := a == b || (match flOf? f a, flOf? f b with
          | some x, some y => x.isZero && y.isZero | _, _ => false)
        if row.conv[o]! == coef && sameC row.conv[o + 1]! consA && sameC row.conv[o + 2]! consS then .ok
        else .prop "cplx.decl.oracle" s!"complex storage publishes coefficient/offsets ({coef}, {consA}, {consS}) for {module}::{unit}, the unit declares ({row.conv[o]!}, {row.conv[o + 1]!}, {row.conv[o + 2]!})"
    return { r with outs := r.outs ++ [decl] }
  | ["fmt", vt, _base, module, idx, style, _spec, coef, consS, pows, v, x, out, rawfmt] =>
    match numTy? vt with
    | some N => handleFmt tbl N vt module idx style coef consS pows v x out rawfmt
    | none => none
  | ["dbg", _vt, _base, module, bmods, bunits, out, rawdbg] => handleDbg tbl module (bmods.splitOn ",") (bunits.splitOn ",") out rawdbg
  | ["parse", vt, _base, module, pows, input, numpart, numparse, result] => handleParse tbl vt module pows input numpart numparse result
  | ["prt", vt, _base, module, idx, _style, pows, v, back] => handleParseRt tbl vt module idx pows v back
  | ["dur", vt, base, pows, cs, cn, v, obs] =>
    match fmtOf? vt with
    | some f => handleDurFl f vt base pows cs cn v obs
    | none => handleDurInt vt base pows cs cn v obs
  | ["tim", vt, base, pows, cs, cn, secs, nanos, obs] =>
    match fmtOf? vt with
    | some f => handleTimFl f vt base pows cs cn secs nanos obs
    | none => handleTimInt vt base pows cs cn secs nanos obs
  | ["trig", vt, _base, fn, idx, x, stored, res, raw] => do
    let f ← fmtOf? vt
    let rows ← tbl.units.get? "angle"
    let row ← rows[idx.toNat?.getD 0]?
    handleForward "trig" f row x stored res raw s!"trig:{fn}"
  | ["inv", vt, _base, fn, idx, x, stored, res, raw] => do
    let f ← fmtOf? vt
    let rows ← tbl.units.get? "ratio"
    let row ← rows[idx.toNat?.getD 0]?
    handleForward "inv" f row x stored res raw s!"inv:{fn}"
  | ["at2", _vt, _base, _module, _a, _b, res, raw] =>
    some ⟨[if res == raw then .ok else .prop "at2.oracle" "atan2 of two like quantities is not the storage type's atan2 of the stored values, in radians"], ["at2"], true⟩
  | ["cst", vt, name, value, module, idx, back] => handleCst tbl vt name value module idx back
  | ["ser", vt, _base, _module, fmt, qout, vout] =>
    some ⟨[if qout == vout then .ok else .prop s!"ser.{fmt}.oracle" "a quantity does not serialize to what its stored value serializes to"], [s!"ser:{vt}:{fmt}"], true⟩
  | ["de", vt, _base, _module, fmt, _input, qres, vres] =>
    some ⟨[if qres == vres then .ok else .prop s!"de.{fmt}.oracle" "a quantity does not deserialize exactly as its storage type does (accepts/rejects/value)"],
          [s!"de:{vt}:{fmt}", if qres == "err" then "de:rejected" else "de:accepted"], true⟩
  | ["dim", form, da, ka, db, kb, e, dres, kres] => handleDim tbl form da ka db kb e dres kres
  | ["acc", form, da, ka, db, kb, same, obs, _label] => handleAcc tbl form da ka db kb same obs
  | ["absent", _module, _unit, reg, parse] =>
    some ⟨[if reg == "registry=0" && parse == "parse=0" then .ok
           else .prop "absent.oracle" "a unit added with unit! appears in the registry or is accepted by FromStr (documented as absent)"], ["absent"], true⟩
  | ["pow", vt, coef, e, obs] => do
    -- one factor of the base-unit combination: `U::coefficient().powi(D::to_i32())`
    let f ← fmtOf? vt
    let c ← flOf? f coef
    let e ← parseInt? e
    let o ← flOf? f obs
    let m := flPowi f c e
    let orc : Outcome := oraclePowFl f c e o
    return ⟨[cmpFl f "pow.model" m o, orc], [s!"pow:{e}"], e != 0 && Fl.cmp c (Fl.one f) != some 0⟩
  | ["num", vt, a, toSi, fromSi, toK, fromK] =>
    -- C15: a bare number converts to and from a ratio unchanged, whatever the base units (same encoding back)
    let bad := [toSi, fromSi, toK, fromK].filter (· != a)
    some ⟨[if bad.isEmpty then .ok
           else .prop "num.oracle" s!"a bare number does not convert to / from a ratio unchanged ({vt}: {a} became {bad.head!})"],
          [s!"num:{vt}"], true⟩
  | ["xpow", vt, coef, e, obs] => do
    -- the same for exact / integer storage (factor type: a ratio, compared exactly) and for complex
    -- storage (factor type: the real float; `powi` is the library's, so only the oracle applies)
    let e ← parseInt? e
    if vt == "complex32" || vt == "complex64" then
      let f := if vt == "complex32" then b32 else b64
      let c ← flOf? f coef
      let o ← flOf? f obs
      let orc : Outcome := oraclePowFl f c e o
      return ⟨[orc], [s!"xpow:{e}"], e != 0 && Fl.cmp c (Fl.one f) != some 0⟩
    else
      if (numTy? vt).isNone then none
      let c ← parseRat? coef
      let o ← parseRat? obs
      let orc : Outcome :=
        if c = 0 then .guard "zero coefficient"
        else if o = c ^ e then .ok
        else .prop "pow.oracle" "a factor of the base-unit combination is not the base unit's coefficient raised to the quantity's exponent"
      return ⟨[orc], [s!"xpow:{e}"], e != 0 && c != 1⟩
  | ["b2", vt, form, _q, _u, a, b, qres, rawres] =>
    match numTy? vt with
    | some N => handleSame N vt form a b qres rawres
    | none => none
  | ["sc", vt, form, _q, _u, a, k, qres, rawres] =>
    match numTy? vt with
    | some N => handleSame N vt form a k qres rawres
    | none => none
  | ["un", vt, form, _q, _u, a, qres, rawres] =>
    match numTy? vt with
    | some N => handleSame N vt form a a qres rawres
    | none => none
  | ["sum", vt, _q, _u, vs, qres, rawres] =>
    match numTy? vt with
    | some N =>
      let orc : Outcome := if qres == rawres then .ok
        else .prop s!"{vt}.sum.oracle" "Sum of quantities differs from the sum of the stored values"
      let vals := if vs == "-" then some [] else (vs.splitOn ":").mapM N.parseV
      match vals with
      | none => none
      | some [] => some ⟨[orc], [s!"same:{vt}:sum"], false⟩
      | some (v :: rest) =>
        -- Rust's `Sum` folds from the left starting at the additive identity; for floats that start
        -- value is −0.0, which is absorbed by the first addition
        let m := rest.foldl (fun acc x => acc.bind fun s => N.add s x) (Tri.ok v)
        let mo : Outcome := match m with
          | .ok r => if N.showV r == qres then .ok else .diff s!"{vt}.sum.model" s!"model={N.showV r} impl={qres}"
          | .panic => if qres == "PANIC" then .ok else .diff s!"{vt}.sum.model" s!"model=PANIC impl={qres}"
          | .unsure => .guard "fixed-width intermediate"
        some ⟨[orc, mo], [s!"same:{vt}:sum"], true⟩
    | none => none
  | ["zero", vt, which, _q, _u, qres, rawres] =>
    some ⟨[if qres == rawres then .ok else .prop s!"{vt}.{which}.oracle" "zero/default of a quantity is not the storage type's"],
          [s!"same:{vt}:{which}"], false⟩
  | _ => none

end Uom
