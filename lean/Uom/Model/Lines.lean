import Uom.Model.Oracle
import Uom.Model.Ops
import Uom.Model.OpsOracle
/-!
# Line protocol: one harness case per line → model recomputation + oracle verdicts
-/
namespace Uom

inductive Outcome where
  | ok
  | guard (why : String)
  | diff (tag : String) (detail : String)
  | prop (tag : String) (why : String)
deriving Repr, Inhabited

def flList? (f : Fmt) (s : String) : Option (List Fl) :=
  (s.splitOn ":").mapM (flOf? f)

/-- bit-level comparison of the model's value with the implementation's (NaNs canonicalised) -/
def cmpFl (f : Fmt) (tag : String) (model obs : Fl) : Outcome :=
  if Fl.toBits f model = Fl.toBits f obs then .ok
  else .diff tag s!"model={flHex f model} impl={flHex f obs}"

def ofVerdict (tag : String) : Verdict → Outcome
  | .pass => .ok
  | .fail why => .prop tag why
  | .guard why => .guard why

def convCase? (vt coef consA consS pows v : String) : Option ConvCase := do
  let f ← fmtOf? vt
  return { fmt := f, coef := ← flOf? f coef, consA := ← flOf? f consA, consS := ← flOf? f consS,
           pows := ← flList? f pows, v := ← flOf? f v }

/-- which branch of `to_base` / `from_base` the case takes, for the input distribution -/
def branchKey (c : ConvCase) : String :=
  let S := flS c.fmt
  let f := baseFactor S c.pows
  let a := if S.ge c.coef f then "to:ge" else "to:lt"
  let b := if S.lt c.coef f then "from:lt" else "from:ge"
  let k := if c.consA.isZero then "lin" else "affine"
  let fk := if Fl.cmp f (Fl.one c.fmt) == some 0 then "f=1" else "f≠1"
  s!"conv:{a}:{b}:{k}:{fk}"

def valueKey (x : Fl) : String :=
  match x with
  | .nan => "v:nan"
  | .inf _ => "v:inf"
  | .fin _ 0 _ => "v:zero"
  | .fin _ _ _ => "v:finite"

structure LineResult where
  outs : List Outcome
  keys : List String
  /-- non-trivial by the rule stated in the evidence (`rule`) -/
  nontrivial : Bool

def convNontrivial (c : ConvCase) : Bool :=
  let f := baseFactor (flS c.fmt) c.pows
  c.v.isFinite && !c.v.isZero &&
    (Fl.cmp c.coef (Fl.one c.fmt) != some 0 || Fl.cmp f (Fl.one c.fmt) != some 0 || !c.consA.isZero)

def handleBin (N : NumTy) (vt form ul ur lp rp a b obs : String) : Option LineResult := do
  let form ← BinForm.ofString? form
  let lps ← (lp.splitOn ":").mapM N.parseT
  let rps ← (rp.splitOn ":").mapM N.parseT
  let l := baseFactor N.S lps
  let r := baseFactor N.S rps
  let a ← N.parseV a
  let b ← N.parseV b
  let keys := [s!"bin:{vt}:{toString (repr form.raw)}", if ul == ur then "bases:same" else "bases:mixed"]
  let nontriv := ul != ur || !(N.eqV a b)
  if !(N.tOk l && N.tOk r) then return ⟨[.guard "fixed-width factor"], keys, false⟩
  let model := binOpOn N form l r a b
  let mo : Outcome := match Tri.showRes N model with
    | none => .guard "fixed-width intermediate"
    | some s => if s == obs then .ok else .diff s!"{vt}.{ul}.{ur}.model" s!"model={s} impl={obs}"
  let orc : Outcome := match fmtOf? vt with
    | some f => match flOf? f (N.showV a), flOf? f (N.showV b), flOf? f (N.showV (N.S.value l)), flOf? f (N.showV (N.S.value r)) with
      | some a, some b, some l, some r => ofVerdict s!"{vt}.oracle" (oracleBinFl f form.raw l r a b obs)
      | _, _, _, _ => .ok
    | none => .ok
  return ⟨[mo, orc], keys, nontriv⟩

def handleFrom (N : NumTy) (vt pair ul ur lp rp a obs : String) : Option LineResult := do
  let lps ← (lp.splitOn ":").mapM N.parseT
  let rps ← (rp.splitOn ":").mapM N.parseT
  let l := baseFactor N.S lps
  let r := baseFactor N.S rps
  let a ← N.parseV a
  let keys := [s!"from:{pair}", if ul == ur then "bases:same" else "bases:mixed"]
  if !(N.tOk l && N.tOk r) then return ⟨[.guard "fixed-width factor"], keys, false⟩
  let m := N.showV (kindFromOn N.S l r a)
  let mo : Outcome := if m == obs then .ok else .diff s!"from.{vt}.model" s!"model={m} impl={obs}"
  let orc : Outcome := match fmtOf? vt with
    | some f => match flOf? f (N.showV a), flOf? f (N.showV (N.S.value l)), flOf? f (N.showV (N.S.value r)), flOf? f obs with
      | some a, some l, some r, some o => ofVerdict s!"from.{vt}.oracle" (oracleFromFl f (ul == ur) l r a o)
      | _, _, _, _ => .ok
    | none => .ok
  return ⟨[mo, orc], keys, true⟩

/-- C07 same-base line: the oracle is the property itself (quantity result = bare-number result);
    where the model knows the raw arithmetic of the type it also recomputes the bare-number result -/
def handleSame (N : NumTy) (vt form a b qres rawres : String) : Option LineResult := do
  let base := (form.splitOn ":").head!
  let orc : Outcome := if qres == rawres then .ok
    else .prop s!"{vt}.{base}.oracle" "quantity-level result differs from the bare-number operation on the stored values"
  let keys := [s!"same:{vt}:{base}"]
  match sameFormRaw base with
  | some (op, swap) =>
    let a ← N.parseV a
    let b ← N.parseV b
    let m := if swap then rawBin N op b a else rawBin N op a b
    let mo : Outcome := match Tri.showRes N m with
      | none => .guard "fixed-width intermediate"
      | some s => if s == qres then .ok else .diff s!"{vt}.{base}.model" s!"model={s} impl={qres}"
    return ⟨[orc, mo], keys, !(N.eqV a b)⟩
  | none =>
    if forwardedForms.contains base then return ⟨[orc], keys, true⟩ else none

/-- complex storage (C20): the model is the code *as it is* (conversion factor of a value = its norm);
    the oracle is the property (both parts scaled by the real factor) -/
def handleCplx (f : Fmt) (c : ConvCase) (im norm : Fl) (obs : List Fl) : LineResult :=
  let S := cplxS f (fun _ => norm)
  let fac := baseFactor (flS f) c.pows
  let z : Fl × Fl := (c.v, im)
  let mNew := toBase S c.coef c.consA fac z
  let mGet := fromBase S c.coef c.consS fac z
  let o (i : Nat) : Fl := obs.getD i Fl.nan
  let models := [cmpFl f "cplx.new.re.model" mNew.1 (o 0), cmpFl f "cplx.new.im.model" mNew.2 (o 1),
                 cmpFl f "cplx.get.re.model" mGet.1 (o 2), cmpFl f "cplx.get.im.model" mGet.2 (o 3)]
  -- property: new(z) = ((re + c)·k, im·k): evaluated with the real conversion on each part
  let wantRe := toBase (flS f) c.coef c.consA fac c.v
  let wantIm := toBase (flS f) c.coef (Fl.zero f true) fac im
  let finite := c.v.isFinite && im.isFinite && wantRe.isFinite && wantIm.isFinite
  let close (a b : Fl) : Bool :=
    a.isFinite && b.isFinite && ratAbs (a.toRat - b.toRat) ≤ 8 * uro f * ratMax (ratAbs a.toRat) (ratAbs b.toRat)
  let orc : Outcome :=
    if !finite then .guard "non-finite"
    else if close (o 0) wantRe && close (o 1) wantIm then .ok
    else if Fl.toBits f (o 0) = Fl.toBits f mNew.1 && Fl.toBits f (o 1) = Fl.toBits f mNew.2 then
      .prop "cplx.F5" "complex conversion replaces the value by its modulus (stored = K·|z| + 0i): real and imaginary parts are not both scaled"
    else .prop "cplx.new.oracle" "complex conversion neither scales both parts nor matches the known modulus defect"
  let rtOrc : Outcome :=
    if !finite then .guard "non-finite"
    else if close (o 4) c.v && (close (o 5) im || (im.isZero && (o 5).isZero)) then .ok
    else if (o 5).isZero then .prop "cplx.F5" "complex construct-then-read returns |z| + 0i instead of z"
    else .prop "cplx.rt.oracle" "complex construct-then-read does not return the input"
  ⟨models ++ [orc, rtOrc], ["cplx", if im.isZero then "cplx:real" else "cplx:im≠0"], !im.isZero⟩

/-- exact / integer storage conversion line (C08, C09) -/
def handleConvx (N : NumTy) (isRat : Bool) (vt coef consA consS pows v newObs getObs rtObs : String) : Option LineResult := do
  let S := N.S
  let coef ← N.parseT coef
  let consA ← N.parseT consA
  let consS ← N.parseT consS
  let ps ← (pows.splitOn ":").mapM N.parseT
  let v ← N.parseV v
  let f := baseFactor S ps
  let keys := [s!"convx:{vt}", if S.ge coef f then "convx:to:ge" else "convx:to:lt"]
  -- fixed-width types: every intermediate of the taken branches must be comfortably small
  let cv := S.conv v
  let s := S.add cv consA
  let toOk := if S.ge coef f then N.tOk (S.div coef f) && N.tOk (S.mul s (S.div coef f))
              else N.tOk (S.mul s coef) && N.tOk (S.div (S.mul s coef) f)
  let fromOk := if S.lt coef f then N.tOk (S.div f coef) && N.tOk (S.mul cv (S.div f coef)) && N.tOk (S.sub (S.mul cv (S.div f coef)) consS)
                else N.tOk (S.div coef f) && N.tOk (S.div cv (S.div coef f)) && N.tOk (S.sub (S.div cv (S.div coef f)) consS)
  if !(N.tOk coef && N.tOk consA && N.tOk f && N.tOk cv && N.tOk s) then
    return ⟨[.guard "fixed-width intermediate"], keys, false⟩
  -- the error branch: Rust panics exactly when it divides by a zero ratio, and (unsigned factor
  -- types) when a subtraction would go below zero; the model's total `/` and `-` must not hide that
  let unsignedT := vt == "biguint" || vt == "u32" || vt == "u64"
  let isZeroT (x : S.T) : Bool := !(S.lt x (S.sub x x)) && !(S.lt (S.sub x x) x)
  let toPanics := isZeroT f
  let fromScaled (w : S.T) : S.T := if S.lt coef f then S.mul w (S.div f coef) else S.div w (S.div coef f)
  let fromPanics (w : S.T) : Bool :=
    (if S.lt coef f then isZeroT coef else (isZeroT f || isZeroT coef)) || (unsignedT && S.lt (fromScaled w) consS)
  let cmpS (tag : String) (m : S.V) (obs : String) (ok panics : Bool) : Outcome :=
    if panics then (if obs == "PANIC" then .ok else .diff s!"{vt}.{tag}" s!"model=PANIC impl={obs}")
    else if !ok then .guard "fixed-width intermediate"
    else if !(N.vOk m) then .guard "result does not fit"
    else if N.showV m == obs then .ok else .diff s!"{vt}.{tag}" s!"model={N.showV m} impl={obs}"
  let mNew := toBase S coef consA f v
  let mGet := fromBase S coef consS f v
  let mRt := fromBase S coef consS f mNew
  let rtOk := toOk && fromOk && N.tOk (S.conv mNew)
  let rtPanics := toPanics || fromPanics (S.conv mNew)
  -- oracle: for rational storage construct-then-read is the identity (exactly)
  let rtOracle : Outcome :=
    if !isRat || !rtOk || rtPanics then .ok
    else if rtObs == N.showV v then .ok
    else .prop s!"{vt}.rt.oracle" "construct-then-read in one unit is not the identity for rational storage"
  return ⟨[cmpS "new.model" mNew newObs toOk toPanics, cmpS "get.model" mGet getObs fromOk (fromPanics cv),
           cmpS "rt.model" mRt rtObs rtOk rtPanics, rtOracle],
          keys, !(N.eqV v mNew)⟩

def handleLine (line : String) : Option LineResult :=
  match line.splitOn " " with
  | ["conv", vt, _base, _module, _unit, coef, consA, consS, pows, v, newObs, getObs, rtObs] => do
    let c ← convCase? vt coef consA consS pows v
    let S := flS c.fmt
    let f := baseFactor S c.pows
    let newObs ← flOf? c.fmt newObs
    let getObs ← flOf? c.fmt getObs
    let rtObs ← flOf? c.fmt rtObs
    let mNew := toBase S c.coef c.consA f c.v
    let mGet := fromBase S c.coef c.consS f c.v
    let mRt := fromBase S c.coef c.consS f mNew
    return ⟨[cmpFl c.fmt "new.model" mNew newObs, cmpFl c.fmt "get.model" mGet getObs,
             cmpFl c.fmt "rt.model" mRt rtObs,
             ofVerdict "new.oracle" (oracleNew c newObs), ofVerdict "get.oracle" (oracleGet c getObs),
             ofVerdict "rt.oracle" (oracleRoundTrip c rtObs)],
            [branchKey c, valueKey c.v, s!"type:{vt}"], convNontrivial c⟩
  | ["rnd", vt, _base, _module, _unit, coef, consA, consS, pows, v, o0, o1, o2, o3, o4] => do
    let c ← convCase? vt coef consA consS pows v
    let S := flS c.fmt
    let f := baseFactor S c.pows
    let obs ← [o0, o1, o2, o3, o4].mapM (flOf? c.fmt)
    let g := fromBase S c.coef c.consS f c.v
    let ops : List (Fl → Fl) := [Fl.floor c.fmt, Fl.ceil c.fmt, Fl.round c.fmt, Fl.trunc c.fmt, Fl.fract c.fmt]
    let names := ["floor", "ceil", "round", "trunc", "fract"]
    let model := ops.map fun op => toBase S c.coef c.consA f (op g)
    let outs := (List.zip names (List.zip model obs)).map fun (n, m, o) => cmpFl c.fmt s!"{n}.model" m o
    let orc := (List.zip (List.range 4) obs).map fun (i, o) => ofVerdict s!"{names[i]!}.oracle" (oracleRounding c i o)
    return ⟨outs ++ orc, ["rnd", valueKey c.v], convNontrivial c⟩
  | ["bin", vt, "hypot", _q, ul, ur, lp, rp, a, b, obs] => do
    -- `hypot` is a libm function: a parameter of the model; only the oracle applies
    let f ← fmtOf? vt
    let l := baseFactor (flS f) (← flList? f lp)
    let r := baseFactor (flS f) (← flList? f rp)
    return ⟨[ofVerdict s!"{vt}.hypot.oracle" (oracleHypot f l r (← flOf? f a) (← flOf? f b) (← flOf? f obs))],
            ["bin:hypot", if ul == ur then "bases:same" else "bases:mixed"], true⟩
  | ["bin", vt, form, _q, ul, ur, lp, rp, a, b, obs] =>
    match numTy? vt with
    | some N => handleBin N vt form ul ur lp rp a b obs
    | none => none
  | ["mad", vt, _q, _u, _ua, _ub, lpa, rpa, lpb, rpb, x, a, b, obs] => do
    let f ← fmtOf? vt
    let S := flS f
    let la := baseFactor S (← flList? f lpa)
    let ra := baseFactor S (← flList? f rpa)
    let lb := baseFactor S (← flList? f lpb)
    let rb := baseFactor S (← flList? f rpb)
    let x ← flOf? f x
    let a ← flOf? f a
    let b ← flOf? f b
    let obs ← flOf? f obs
    return ⟨[cmpFl f "mad.model" (mulAddOn f la ra lb rb x a b) obs,
             ofVerdict "mad.oracle" (oracleMulAdd f la ra lb rb x a b obs)], ["mad"], true⟩
  | ["from", vt, pair, ul, ur, lp, rp, a, obs] =>
    match numTy? vt with
    | some N => handleFrom N vt pair ul ur lp rp a obs
    | none => none
  | ["convx", vt, _base, _module, _unit, coef, consA, consS, pows, v, newObs, getObs, rtObs] =>
    match numTy? vt with
    | some N => handleConvx N (vt == "bigrational" || vt == "rational64") vt coef consA consS pows v newObs getObs rtObs
    | none => none
  | ["skip", vt, _base, _module, _unit] => some ⟨[.guard "coefficient not representable"], [s!"skip:{vt}"], false⟩
  | ["cplx", vt, _base, _module, _unit, coef, consA, consS, pows, re, im, norm, nre, nim, gre, gim, rre, rim] => do
    let f ← fmtOf? (if vt == "complex64" then "f64" else "f32")
    let c ← convCase? (if vt == "complex64" then "f64" else "f32") coef consA consS pows re
    let im ← flOf? f im
    let norm ← flOf? f norm
    let obs ← [nre, nim, gre, gim, rre, rim].mapM (flOf? f)
    return handleCplx f c im norm obs
  | ["b2", vt, form, _q, _u, a, b, qres, rawres] =>
    match numTy? vt with
    | some N => handleSame N vt form a b qres rawres
    | none => none
  | ["sc", vt, form, _q, _u, a, k, qres, rawres] =>
    match numTy? vt with
    | some N => handleSame N vt form a k qres rawres
    | none => none
  | ["un", vt, form, _q, _u, a, qres, rawres] =>
    match numTy? vt with
    | some N => handleSame N vt form a a qres rawres
    | none => none
  | ["sum", vt, _q, _u, vs, qres, rawres] =>
    match numTy? vt with
    | some N =>
      let orc : Outcome := if qres == rawres then .ok
        else .prop s!"{vt}.sum.oracle" "Sum of quantities differs from the sum of the stored values"
      let vals := if vs == "-" then some [] else (vs.splitOn ":").mapM N.parseV
      match vals with
      | none => none
      | some [] => some ⟨[orc], [s!"same:{vt}:sum"], false⟩
      | some (v :: rest) =>
        -- Rust's `Sum` folds from the left starting at the additive identity; for floats that start
        -- value is −0.0, which is absorbed by the first addition
        let m := rest.foldl (fun acc x => acc.bind fun s => N.add s x) (Tri.ok v)
        let mo : Outcome := match m with
          | .ok r => if N.showV r == qres then .ok else .diff s!"{vt}.sum.model" s!"model={N.showV r} impl={qres}"
          | .panic => if qres == "PANIC" then .ok else .diff s!"{vt}.sum.model" s!"model=PANIC impl={qres}"
          | .unsure => .guard "fixed-width intermediate"
        some ⟨[orc, mo], [s!"same:{vt}:sum"], true⟩
    | none => none
  | ["zero", vt, which, _q, _u, qres, rawres] =>
    some ⟨[if qres == rawres then .ok else .prop s!"{vt}.{which}.oracle" "zero/default of a quantity is not the storage type's"],
          [s!"same:{vt}:{which}"], false⟩
  | _ => none

end Uom
