/-!
# Declarative part of the model: what a `system!` / `quantity!` / `unit!` invocation *says*

These structures are what the translator (`/verif/translate/translate.py`) emits from the current
source of `/repo/src/si`.  Import-free (core Lean only) so that the executable driver links.
Strings are carried as `⟨byte length, big-endian Nat of the UTF-8 bytes⟩`: equality and append are
`Nat` arithmetic, which the kernel evaluates with GMP, so table obligations stay `decide +kernel`-able.
-/
namespace Uom

/-- a UTF-8 string as (byte length, big-endian number of its bytes) -/
structure Str where
  len : Nat
  code : Nat
deriving DecidableEq, Repr, Inhabited, BEq, Hashable

namespace Str
def empty : Str := ⟨0, 0⟩
def append (a b : Str) : Str := ⟨a.len + b.len, a.code * 256 ^ b.len + b.code⟩
instance : Append Str := ⟨append⟩

/-- the bytes, most significant first -/
def bytes (s : Str) : List Nat :=
  (List.range s.len).map fun i => (s.code / 256 ^ (s.len - 1 - i)) % 256

def ofBytes (bs : List Nat) : Str := ⟨bs.length, bs.foldl (fun acc b => acc * 256 + b) 0⟩

def ofString (s : String) : Str := ofBytes (s.toUTF8.toList.map (·.toNat))

def toString (s : Str) : String :=
  match String.fromUTF8? (ByteArray.mk (s.bytes.map (·.toUInt8)).toArray) with
  | some t => t
  | none => "<invalid utf8>"

instance : ToString Str := ⟨Str.toString⟩
end Str

/-- Coefficient / constant expression of a unit declaration, after `prefix!` expansion.
    `lit m e` is the decimal literal `m · 10^e` exactly as written in the source. -/
inductive CExpr where
  | lit (m : Nat) (e10 : Int)
  | neg (a : CExpr)
  | add (a b : CExpr)
  | sub (a b : CExpr)
  | mul (a b : CExpr)
  | div (a b : CExpr)
deriving Repr, Inhabited, DecidableEq

def pow10 (e : Int) : Rat := if e ≥ 0 then ((10 ^ e.toNat : Nat) : Rat) else 1 / ((10 ^ (-e).toNat : Nat) : Rat)

/-- the exact rational value the source text denotes (what the declaration *means*) -/
def CExpr.exact : CExpr → Rat
  | .lit m e => (m : Rat) * pow10 e
  | .neg a => - a.exact
  | .add a b => a.exact + b.exact
  | .sub a b => a.exact - b.exact
  | .mul a b => a.exact * b.exact
  | .div a b => a.exact / b.exact

structure UnitDecl where
  name : Str
  coef : CExpr
  cons : Option CExpr
  abbr : Str
  sing : Str
  plur : Str
deriving Repr, Inhabited

structure QuantityDecl where
  modName : Str
  name : Str
  desc : Str
  dim : List Int
  kind : Nat
  units : List UnitDecl
deriving Repr, Inhabited

structure KindDecl where
  name : Str
  markers : List Nat
deriving Repr, Inhabited

structure BaseDecl where
  name : Str
  unit : Str
  symbol : Str
deriving Repr, Inhabited

structure SystemDecl where
  quantities : Str
  units : Str
  base : List BaseDecl
deriving Repr, Inhabited

def findQuantity (t : List QuantityDecl) (module : Str) : Option QuantityDecl :=
  t.find? (fun q => q.modName == module)

def QuantityDecl.findUnit (q : QuantityDecl) (name : Str) : Option UnitDecl :=
  q.units.find? (fun u => u.name == name)

end Uom
