import Uom.Model.Table
/-!
# Type-level model: dimension algebra of the operators (C01) and the acceptance relation (C02)

typenum integers are modelled by `Int` (`Sum = +`, `Diff = −`, `Negate`, `Prod = ×`,
`PartialQuot a b` defined iff `b ∣ a`).  A quantity type is its exponent vector, its kind (index into
the generated kind list; 0 = the default kind `dyn Kind`) and — for unit-taking forms — its module.
-/
namespace Uom

structure QTy where
  dim : List Int
  kind : Nat
deriving DecidableEq, Repr, Inhabited

def zipDims (f : Int → Int → Int) : List Int → List Int → List Int
  | a :: as, b :: bs => f a b :: zipDims f as bs
  | _, _ => []

/-- `Quantity<Dl,…> * Quantity<Dr,…>`: `ISQ<Sum<Dl::L, Dr::L>, …>` — the kind parameter is left at its default -/
def outMul (l r : QTy) : QTy := ⟨zipDims (· + ·) l.dim r.dim, 0⟩
/-- `/`: `ISQ<Diff<…>, …>` -/
def outDiv (l r : QTy) : QTy := ⟨zipDims (· - ·) l.dim r.dim, 0⟩
/-- `recip`: `ISQ<Negate<…>, …>` -/
def outRecip (q : QTy) : QTy := ⟨q.dim.map (fun d => -d), 0⟩
/-- `powi(E)`: `ISQ<Prod<D::L, E>, …>` -/
def outPowi (q : QTy) (e : Int) : QTy := ⟨q.dim.map (fun d => d * e), 0⟩
/-- `sqrt` / `cbrt`: `ISQ<PartialQuot<D::L, P2|P3>, …>`, defined iff every exponent is divisible -/
def outRoot (n : Int) (q : QTy) : Option QTy :=
  if q.dim.all (fun d => d % n == 0) then some ⟨q.dim.map (fun d => d / n), 0⟩ else none
/-- `x.mul_add(a, b)`: `ISQ<Sum<D::L, Da::L>, …>` -/
def outMulAdd (x a : QTy) : QTy := outMul x a
/-- `V * Quantity` / `V / Quantity` (scalar on the left): `ISQ<Sum|Diff<Z0, D::L>, …, D::Kind>` — the kind is kept -/
def outScalarLeftMul (q : QTy) : QTy := ⟨q.dim.map (fun d => 0 + d), q.kind⟩
def outScalarLeftDiv (q : QTy) : QTy := ⟨q.dim.map (fun d => 0 - d), q.kind⟩
/-- `+ − % Neg`, `* V`, `/ V`, assigning forms, `abs signum min max floor ceil round trunc fract`:
    `type Output = Quantity<D, Ul, V>` / `Self` -/
def outPreserving (l : QTy) : QTy := l

/-! ## acceptance -/

inductive Form where
  | add | sub | rem | adda | suba | rema
  | eq | lt | pcmp | ordmax | letbind | hypot | atan2
  | newf | getf | from_ | sqrt | cbrt | neg
  | satadd | satsub | sum
  | sumref | addref | subref | addaref
  | fmtargs | fmtwith | floorf
deriving DecidableEq, Repr, Inhabited

def Form.ofString? : String → Option Form
  | "add" => some .add | "sub" => some .sub | "rem" => some .rem
  | "adda" => some .adda | "suba" => some .suba | "rema" => some .rema
  | "eq" => some .eq | "lt" => some .lt | "pcmp" => some .pcmp | "ordmax" => some .ordmax
  | "letbind" => some .letbind | "hypot" => some .hypot | "atan2" => some .atan2
  | "newf" => some .newf | "getf" => some .getf | "from" => some .from_
  | "sqrt" => some .sqrt | "cbrt" => some .cbrt | "neg" => some .neg
  | "satadd" => some .satadd | "satsub" => some .satsub | "sum" => some .sum
  | "sumref" => some .sumref | "addref" => some .addref | "subref" => some .subref | "addaref" => some .addaref
  | "fmtargs" => some .fmtargs | "fmtwith" => some .fmtwith | "floorf" => some .floorf
  | _ => none

/-- marker indices in `Gen.markerNames` order -/
def mAdd := 0
def mAddAssign := 1
def mSub := 2
def mSubAssign := 3
def mDiv := 6
def mNeg := 8
def mRem := 9
def mRemAssign := 10
def mSaturating := 11

structure TyEnv where
  kinds : List KindDecl
  implFrom : List (Nat × Nat)
  /-- the temperature point / interval types, for the explicit cross-kind impls of src/si -/
  tt : QTy
  ti : QTy

def TyEnv.has (e : TyEnv) (k : Nat) (marker : Nat) : Bool :=
  match e.kinds[k]? with
  | some kd => kd.markers.contains marker
  | none => false

/-- does the program `a ⟨form⟩ b` compile, for `a : A`, `b : B` (same storage type, same base units);
    `sameModule`: for the unit-taking forms, whether the unit belongs to `A`'s own quantity module -/
def accepts (e : TyEnv) (f : Form) (A B : QTy) (sameModule : Bool) : Bool :=
  match f with
  | .add => (A = B && e.has A.kind mAdd) || (A = e.tt && B = e.ti) || (A = e.ti && B = e.tt)
  | .sub => (A = B && e.has A.kind mSub) || (A = e.tt && B = e.ti)
  | .adda => (A = B && e.has A.kind mAddAssign) || (A = e.tt && B = e.ti)
  | .suba => (A = B && e.has A.kind mSubAssign) || (A = e.tt && B = e.ti)
  | .rem => A = B && e.has A.kind mRem
  | .rema => A = B && e.has A.kind mRemAssign
  | .eq | .lt | .pcmp | .ordmax | .letbind | .hypot | .atan2 => A = B
  -- every unit-taking method (`new`, `get`, the rounding methods, both formatting entry points) is
  -- bounded by the quantity's own `Unit` marker trait
  | .newf | .getf | .fmtargs | .fmtwith | .floorf => sameModule
  | .from_ => A = B || (A.dim = B.dim && e.implFrom.contains (A.kind, B.kind))
  | .sqrt => (outRoot 2 A).isSome && e.has A.kind mDiv
  | .cbrt => (outRoot 3 A).isSome && e.has A.kind mDiv
  | .neg => e.has A.kind mNeg
  -- `num_traits::Saturating for Quantity` (`D::Kind: marker::Saturating`), operands of one type
  | .satadd | .satsub => A = B && e.has A.kind mSaturating
  -- `iter::Sum for Quantity` (`D::Kind: marker::Add`): accumulating quantities of one type
  | .sum => A = B && e.has A.kind mAdd
  -- by-reference operands (`a + &b`, `a -= &b`, `slice.iter().sum()`): no impl takes `&Quantity`
  | .sumref | .addref | .subref | .addaref => false

end Uom
