import Uom.Model.Text
/-!
# Control-flow bodies regenerated from the Rust source (`match`, `?`, `return`, closures, `write!`)

`Uom.Body.BExpr` (Model/Body.lean) covers the straight-line arithmetic bodies.  The functions whose
body is *control flow over `Option`/`Result`/strings* — `FromStr::from_str` (src/quantity.rs), the
`fmt` impls (src/system.rs), `TryFrom<Time> for Duration` / `TryFrom<Duration> for Time`
(src/si/time.rs) and the `powi` impls (src/lib.rs) — are translated by `translate/bodies.py` into the
expression language `Rx` below (file `Uom/Gen/RxBodies.lean`, regenerated on every run).

`eval` gives an `Rx` term its meaning.  It interprets, natively, exactly the part of the Rust core
library these bodies use — `Option`/`Result` constructors and patterns, `?`, `return`, `unwrap`,
`ok_or`, `map_err`, `and_then`, `str::splitn(2, c)`, `Iterator::next`, `str::trim`, integer `cmp`,
`write!` with `{}` placeholders, and the two `macro_rules!` repetitions (`$( … => … ,)+` match arms over
the units of a quantity, `$(.m(…))+` method chains over the base quantities of a system) — and leaves
everything else (methods of the storage type, `Self::new::<unit>`, `get::<unit>`, `Duration::new`, …)
to the environment `Env`, i.e. *uninterpreted*: the `gen_eq_hand` theorems of `Proofs/BodyEq/Text.lean`,
`Dur.lean`, `Powi.lean` instantiate the environment with the hand-written model's functions and prove
that the regenerated body then computes the hand-written model function for **every** input.

All lists are encoded by chain constructors (`arm … rest`) so that `eval` is one structural recursion.
-/
namespace Uom.Rx
open Uom

/-! ## well-known names: the translator's name tables start with these, in this order -/

def cNone : Nat := 0
def cSome : Nat := 1
def cOk : Nat := 2
def cErr : Nat := 3
def cLess : Nat := 4
def cEqual : Nat := 5
def cGreater : Nat := 6

def mSplitn : Nat := 0
def mNext : Nat := 1
def mUnwrap : Nat := 2
def mOkOr : Nat := 3
def mMapErr : Nat := 4
def mAndThen : Nat := 5
def mTrim : Nat := 6
def mFmt : Nat := 7
def mCmp : Nat := 8

/-- reserved variable: the index of the current repetition instance (`$unit`, `$symbol`/`$name`) -/
def vRep : Nat := 1000
/-- reserved variable: the scrutinee of the enclosing `match` -/
def vScrut : Nat := 1001

inductive Pat where
  | wild
  | bind (i : Nat)
  | ctor0 (c : Nat)
  | ctor1 (c : Nat) (p : Pat)
  | tup2 (p q : Pat)
  | str (s : Bytes)
  /-- a macro metavariable bound by the enclosing repetition (`$abbreviation`, …): code of its name -/
  | metaVar (k : Nat)
  | alt (p q : Pat)
deriving Repr, Inhabited

inductive Rx where
  | var (i : Nat)
  | nat (n : Nat)
  | str (s : Bytes)
  | chr (c : Nat)
  | unit
  /-- a path used as a value: constant, unit-like enum constructor, `PhantomData` … -/
  | path (c : Nat)
  | call0 (f : Nat)
  | call1 (f : Nat) (a : Rx)
  | call2 (f : Nat) (a b : Rx)
  | m0 (r : Rx) (m : Nat)
  | m1 (r : Rx) (m : Nat) (a : Rx)
  | m2 (r : Rx) (m : Nat) (a b : Rx)
  /-- a method call whose only argument is a closure literal `|p| body` -/
  | mClos (r : Rx) (m : Nat) (p : Pat) (body : Rx)
  | field (r : Rx) (name : Nat)
  | bin (op : Nat) (a b : Rx)
  | neg (a : Rx)
  | ref (a : Rx)
  /-- `a as T` -/
  | cast (a : Rx) (ty : Nat)
  | tup2 (a b : Rx)
  | ite (c t e : Rx)
  | letIn (i : Nat) (v body : Rx)
  /-- `let (a, b) = v; body` -/
  | letPat (p : Pat) (v body : Rx)
  | seq (a b : Rx)
  | ret (a : Rx)
  /-- `a?` -/
  | try_ (a : Rx)
  | matchOn (s arms : Rx)
  | arm (p : Pat) (body rest : Rx)
  /-- `$( pat => body ,)+` followed by the remaining arms: one arm per unit of the quantity -/
  | repArm (p : Pat) (body rest : Rx)
  | noArm
  /-- `recv $(.m(|p| body))+`: one call per base quantity of the system, in system order -/
  | repChainClos (r : Rx) (m : Nat) (p : Pat) (body : Rx)
  /-- `write!(dst, "fmt", a…)` with 0, 1 or 2 arguments -/
  | write0 (dst : Rx) (fmt : Bytes)
  | write1 (dst : Rx) (fmt : Bytes) (a : Rx)
  | write2 (dst : Rx) (fmt : Bytes) (a b : Rx)
  | opaque (c : Nat)
deriving Repr, Inhabited

/-- a translated function: number of parameters (variables `0 … params-1`), its body -/
structure FnDef where
  params : Nat
  body : Rx
deriving Repr, Inhabited

/-! ## values -/

/-- `H`: whatever the environment's functions act on (numbers, quantities, durations, …) -/
inductive RV (H : Type) where
  | host (x : H)
  | bool (b : Bool)
  | nat (n : Nat)
  | int (i : Int)
  | str (s : Bytes)
  | chr (c : Nat)
  | unit
  | ctor0 (c : Nat)
  | ctor1 (c : Nat) (x : RV H)
  | tup2 (a b : RV H)
  /-- a `SplitN` iterator: the items not yet yielded -/
  | iter (items : List Bytes)
  /-- the `&mut Formatter` -/
  | fmtr
  /-- an environment function panicked -/
  | panicked
  | bad
deriving Repr, Inhabited

inductive Ctl (H : Type) where
  | val (v : RV H)
  | ret (v : RV H)
  | panic
  | bad
deriving Repr, Inhabited

/-- mutable state: what has been written to the formatter, and the state of local iterators
    (`let mut parts`) keyed by variable -/
structure St where
  out : Bytes := []
  iters : List (Nat × List Bytes) := []
deriving Repr, Inhabited

structure Env (H : Type) where
  /-- uninterpreted functions / paths (code into the generated name table) -/
  ext : Nat → List (RV H) → RV H
  /-- uninterpreted methods: receiver first -/
  meth : Nat → List (RV H) → RV H
  /-- uninterpreted binary operators on host values (`<`, `%`, `+`, …) -/
  binop : Nat → RV H → RV H → RV H
  field : Nat → RV H → RV H
  cast : Nat → RV H → RV H
  /-- `x.fmt(f)`: the bytes the value's own formatting writes under `f`'s spec, or a formatting error -/
  fmtHost : RV H → Option Bytes
  /-- `{}` of a host value inside `write!` -/
  display : RV H → Bytes
  /-- number of instances of the unit repetition, and the value of a label metavariable per instance -/
  nUnits : Nat
  metaVar : Nat → Nat → Bytes
  /-- number of base quantities of the system (instances of the `$symbol`/`$name` repetition) -/
  nBase : Nat
  /-- unary minus on a host value -/
  neg : RV H → RV H := fun _ => .bad

/-! ## native library semantics -/

/-- `s.splitn(2, c)` for a one-byte character `c`: the part before the first `c` and the rest -/
def splitn2 (c : Nat) : Bytes → List Bytes
  | [] => [[]]
  | b :: rest =>
    if b = c then [[], rest]
    else match splitn2 c rest with
      | [a] => [b :: a]
      | [a, r] => [b :: a, r]
      | _ => [[]]

def natDigits (n : Nat) : Bytes := (toString n).toUTF8.toList.map (·.toNat)

/-- `{}` rendering of a value inside `write!` -/
def display {H : Type} (env : Env H) : RV H → Bytes
  | .str s => s
  | .nat n => natDigits n
  | .int i => intBytes i
  | v => env.display v

/-- substitute the arguments for the `{}` placeholders of a format string, left to right -/
def substFmt : Bytes → List Bytes → Bytes
  | 0x7b :: 0x7d :: rest, a :: as => a ++ substFmt rest as
  | b :: rest, as => b :: substFmt rest as
  | [], _ => []

def lookup {H : Type} (vars : List (Nat × RV H)) (i : Nat) : RV H :=
  match vars with
  | [] => .bad
  | (j, x) :: rest => if i = j then x else lookup rest i

/-- match a value against a pattern; `lab k` is the value of the label metavariable `k` in the current
    repetition instance -/
def matchPat {H : Type} (lab : Nat → Bytes) : Pat → RV H → Option (List (Nat × RV H))
  | .wild, _ => some []
  | .bind i, v => some [(i, v)]
  | .ctor0 c, .ctor0 d => if c = d then some [] else none
  | .ctor0 _, _ => none
  | .ctor1 c p, .ctor1 d x => if c = d then matchPat lab p x else none
  | .ctor1 _ _, _ => none
  | .tup2 p q, .tup2 a b =>
    match matchPat lab p a, matchPat lab q b with
    | some l, some r => some (l ++ r)
    | _, _ => none
  | .tup2 _ _, _ => none
  | .str s, .str t => if s = t then some [] else none
  | .str _, _ => none
  | .metaVar k, .str t => if lab k = t then some [] else none
  | .metaVar _, _ => none
  | .alt p q, v => match matchPat lab p v with
    | some l => some l
    | none => matchPat lab q v

/-- first repetition instance `i < n` (counting up from `i₀`) whose pattern matches -/
def findRep {H : Type} (metaVar : Nat → Nat → Bytes) (p : Pat) (v : RV H) : Nat → Nat → Option Nat
  | 0, _ => none
  | fuel + 1, i =>
    match matchPat (fun k => metaVar k i) p v with
    | some _ => some i
    | none => findRep metaVar p v fuel (i + 1)

/-- methods the core library defines, on already evaluated receiver and arguments; `none` = not native -/
def nativeMeth {H : Type} (m : Nat) (args : List (RV H)) : Option (Ctl H) :=
  match args with
  | [.ctor1 c x] =>
    if m = mUnwrap then (if c = cSome ∨ c = cOk then some (.val x) else if c = cErr then some .panic else none)
    else none
  | [.ctor0 c] =>
    if m = mUnwrap then (if c = cNone then some .panic else none) else none
  | [.str s] => if m = mTrim then some (.val (.str (trim s))) else none
  | [.ctor1 c x, e] =>
    if m = mOkOr then (if c = cSome then some (.val (.ctor1 cOk x)) else none) else none
  | [.ctor0 c, e] =>
    if m = mOkOr then (if c = cNone then some (.val (.ctor1 cErr e)) else none) else none
  | [.str s, .nat 2, .chr c] => if m = mSplitn then some (.val (.iter (splitn2 c s))) else none
  | [.int a, .nat b] =>
    if m = mCmp then some (.val (.ctor0 (if a < (b : Int) then cLess else if a = (b : Int) then cEqual else cGreater)))
    else none
  | [.int a, .int b] =>
    if m = mCmp then some (.val (.ctor0 (if a < b then cLess else if a = b then cEqual else cGreater))) else none
  | _ => none

def ofRV {H : Type} : RV H → Ctl H
  | .panicked => .panic
  | .bad => .bad
  | v => .val v

/-- `?` -/
def tryOp {H : Type} : RV H → Ctl H
  | .ctor1 c x => if c = cOk ∨ c = cSome then .val x else if c = cErr then .ret (.ctor1 cErr x) else .bad
  | .ctor0 c => if c = cNone then .ret (.ctor0 cNone) else .bad
  | _ => .bad

def itersGet (its : List (Nat × List Bytes)) (i : Nat) : Option (List Bytes) :=
  match its with
  | [] => none
  | (j, x) :: rest => if i = j then some x else itersGet rest i

/-! ## evaluation -/

def eval {H : Type} (env : Env H) : Rx → List (Nat × RV H) → St → Ctl H × St
  | .var i, vars, st => (ofRV (lookup vars i), st)
  | .nat n, _, st => (.val (.nat n), st)
  | .str s, _, st => (.val (.str s), st)
  | .chr c, _, st => (.val (.chr c), st)
  | .unit, _, st => (.val .unit, st)
  | .path c, _, st =>
    (if c = cNone then .val (.ctor0 cNone) else if c = cLess ∨ c = cEqual ∨ c = cGreater then .val (.ctor0 c)
     else ofRV (env.ext c []), st)
  | .call0 f, _, st => (ofRV (env.ext f []), st)
  | .call1 f a, vars, st =>
    match eval env a vars st with
    | (.val x, st) =>
      (if f = cSome ∨ f = cOk ∨ f = cErr then .val (.ctor1 f x) else ofRV (env.ext f [x]), st)
    | r => r
  | .call2 f a b, vars, st =>
    match eval env a vars st with
    | (.val x, st) =>
      match eval env b vars st with
      | (.val y, st) => (ofRV (env.ext f [x, y]), st)
      | r => r
    | r => r
  | .m0 r m, vars, st =>
    -- `parts.next()` on a local iterator variable: stateful
    match r with
    | .var i =>
      if m = mNext then
        match itersGet st.iters i with
        | some (x :: rest) => (.val (.ctor1 cSome (.str x)), { st with iters := (i, rest) :: st.iters })
        | some [] => (.val (.ctor0 cNone), st)
        | none => (.bad, st)
      else
        match ofRV (lookup vars i) with
        | .val x =>
          (match nativeMeth m [x] with
           | some c => c
           | none => ofRV (env.meth m [x]), st)
        | c => (c, st)
    | _ =>
      match eval env r vars st with
      | (.val x, st) =>
        (match nativeMeth m [x] with
         | some c => c
         | none => ofRV (env.meth m [x]), st)
      | res => res
  | .m1 r m a, vars, st =>
    match eval env r vars st with
    | (.val x, st) =>
      match eval env a vars st with
      | (.val y, st) =>
        if m = mFmt then
          -- `x.fmt(f)`: the value's own formatting, appended to the formatter
          match y with
          | .fmtr =>
            (match env.fmtHost x with
             | some bytes => (.val (.ctor1 cOk .unit), { st with out := st.out ++ bytes })
             | none => (.val (.ctor1 cErr .unit), st))
          | _ => (.bad, st)
        else
          (match nativeMeth m [x, y] with
           | some c => c
           | none => ofRV (env.meth m [x, y]), st)
      | res => res
    | res => res
  | .m2 r m a b, vars, st =>
    match eval env r vars st with
    | (.val x, st) =>
      match eval env a vars st with
      | (.val y, st) =>
        match eval env b vars st with
        | (.val z, st) =>
          (match nativeMeth m [x, y, z] with
           | some c => c
           | none => ofRV (env.meth m [x, y, z]), st)
        | res => res
      | res => res
    | res => res
  | .mClos r m p body, vars, st =>
    match eval env r vars st with
    | (.val (.ctor1 c x), st) =>
      if m = mMapErr then
        if c = cErr then
          match matchPat (fun _ => []) p x with
          | some bs =>
            (match eval env body (bs ++ vars) st with
             | (.val e, st) => (.val (.ctor1 cErr e), st)
             | res => res)
          | none => (.bad, st)
        else if c = cOk then (.val (.ctor1 c x), st) else (.bad, st)
      else if m = mAndThen then
        if c = cOk ∨ c = cSome then
          match matchPat (fun _ => []) p x with
          | some bs => eval env body (bs ++ vars) st
          | none => (.bad, st)
        else if c = cErr then (.val (.ctor1 c x), st) else (.bad, st)
      else (.bad, st)
    | (.val _, st) => (.bad, st)
    | res => res
  | .field r name, vars, st =>
    match eval env r vars st with
    | (.val x, st) => (ofRV (env.field name x), st)
    | res => res
  | .bin op a b, vars, st =>
    match eval env a vars st with
    | (.val x, st) =>
      match eval env b vars st with
      | (.val y, st) => (ofRV (env.binop op x y), st)
      | res => res
    | res => res
  | .neg a, vars, st =>
    match eval env a vars st with
    | (.val (.int i), st) => (.val (.int (-i)), st)
    | (.val (.nat n), st) => (.val (.int (-(n : Int))), st)
    | (.val x, st) => (ofRV (env.neg x), st)
    | res => res
  | .ref a, vars, st => eval env a vars st
  | .cast a ty, vars, st =>
    match eval env a vars st with
    | (.val x, st) => (ofRV (env.cast ty x), st)
    | res => res
  | .tup2 a b, vars, st =>
    match eval env a vars st with
    | (.val x, st) =>
      match eval env b vars st with
      | (.val y, st) => (.val (.tup2 x y), st)
      | res => res
    | res => res
  | .ite c t e, vars, st =>
    match eval env c vars st with
    | (.val (.bool true), st) => eval env t vars st
    | (.val (.bool false), st) => eval env e vars st
    | (.val _, st) => (.bad, st)
    | res => res
  | .letIn i v body, vars, st =>
    match eval env v vars st with
    | (.val (.iter items), st) =>
      -- `let mut parts = s.splitn(…)`: the iterator lives in the state
      eval env body ((i, .iter items) :: vars) { st with iters := (i, items) :: st.iters }
    | (.val x, st) => eval env body ((i, x) :: vars) st
    | res => res
  | .letPat p v body, vars, st =>
    match eval env v vars st with
    | (.val x, st) =>
      (match matchPat (fun _ => []) p x with
       | some bs => eval env body (bs ++ vars) st
       | none => (.bad, st))
    | res => res
  | .seq a b, vars, st =>
    match eval env a vars st with
    | (.val _, st) => eval env b vars st
    | res => res
  | .ret a, vars, st =>
    match eval env a vars st with
    | (.val x, st) => (.ret x, st)
    | res => res
  | .try_ a, vars, st =>
    match eval env a vars st with
    | (.val x, st) => (tryOp x, st)
    | res => res
  | .matchOn s arms, vars, st =>
    match eval env s vars st with
    | (.val x, st) => eval env arms ((vScrut, x) :: vars) st
    | res => res
  | .arm p body rest, vars, st =>
    match matchPat (fun _ => []) p (lookup vars vScrut) with
    | some bs => eval env body (bs ++ vars) st
    | none => eval env rest vars st
  | .repArm p body rest, vars, st =>
    match findRep env.metaVar p (lookup vars vScrut) env.nUnits 0 with
    | some i => eval env body ((vRep, .nat i) :: vars) st
    | none => eval env rest vars st
  | .noArm, _, st => (.bad, st)
  | .repChainClos r m p body, vars, st =>
    match eval env r vars st with
    | (.val x, st) =>
      if m = mAndThen then
        (List.range env.nBase).foldl
          (fun (acc : Ctl H × St) i =>
            match acc with
            | (.val (.ctor1 c y), st) =>
              if c = cOk then
                match matchPat (fun _ => []) p y with
                | some bs => eval env body ((vRep, .nat i) :: bs ++ vars) st
                | none => (.bad, st)
              else if c = cErr then (.val (.ctor1 c y), st) else (.bad, st)
            | (.val _, st) => (.bad, st)
            | res => res)
          (.val x, st)
      else (.bad, st)
    | res => res
  | .write0 dst fmt, vars, st =>
    match eval env dst vars st with
    | (.val .fmtr, st) => (.val (.ctor1 cOk .unit), { st with out := st.out ++ substFmt fmt [] })
    | (.val _, st) => (.bad, st)
    | res => res
  | .write1 dst fmt a, vars, st =>
    match eval env dst vars st with
    | (.val .fmtr, st) =>
      match eval env a vars st with
      | (.val x, st) => (.val (.ctor1 cOk .unit), { st with out := st.out ++ substFmt fmt [display env x] })
      | res => res
    | (.val _, st) => (.bad, st)
    | res => res
  | .write2 dst fmt a b, vars, st =>
    match eval env dst vars st with
    | (.val .fmtr, st) =>
      match eval env a vars st with
      | (.val x, st) =>
        match eval env b vars st with
        | (.val y, st) =>
          (.val (.ctor1 cOk .unit), { st with out := st.out ++ substFmt fmt [display env x, display env y] })
        | res => res
      | res => res
    | (.val _, st) => (.bad, st)
    | res => res
  | .opaque _, _, st => (.bad, st)

/-- run a function on its arguments: the value it returns (by falling off the end or by `return`/`?`),
    and what it wrote to the formatter -/
def run {H : Type} (env : Env H) (f : FnDef) (args : List (RV H)) : Ctl H × Bytes :=
  match eval env f.body ((List.range f.params).zip args) {} with
  | (.ret v, st) => (.val v, st.out)
  | (c, st) => (c, st.out)

end Uom.Rx
