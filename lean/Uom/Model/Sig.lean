import Uom.Model.Dim
import Uom.Model.Body
/-!
# Operator signatures regenerated from the Rust source: output dimension and trait bounds

For every operator impl / method of src/system.rs the translator (`translate/bodies.py`, `parse_sig`)
records — from the `impl` header, its `type Output`, the method's return type and the `where` clauses —
* which dimension parameter `self` and the right operand carry (`impl<D, Ul, Ur, V> Add<Quantity<D, Ur, V>>
  for Quantity<D, Ul, V>`: both `D`, so the two operands have *the same* dimension type),
* the output type: `Self`, `Quantity<D, …>`, or `$quantities<$(typenum::Op<A::$symbol, B>),+ [D::Kind]>`,
* the kind bounds `D::Kind: marker::M` (marker index in `Gen.markerNames` order),
* the per-exponent typenum bounds `$(D::$symbol: Trait<Arg>,)+`.
`Sig.outTy` and `Sig.holds` give these a meaning in the type-level model of `Uom.Model.Dim`
(typenum integers are `Int`).  `Uom/Props/C01.lean` and `C02.lean` prove that the regenerated
signatures denote the hand-written `outMul`, `outDiv`, … and the clauses of `accepts`.
-/
namespace Uom.Sig
open Uom Uom.Body

inductive TArg where
  | dim (d : TyP) | z0 | p2 | p3 | e | none
deriving DecidableEq, Repr, Inhabited

inductive TOp where
  | sum | diff | prod | negate | partialQuot | quot | other
deriving DecidableEq, Repr, Inhabited

inductive TOut where
  | same (d : TyP)
  | self
  | op (o : TOp) (a b : TArg) (keepKind : Bool)
  | unit
  | named (code : Nat)
deriving DecidableEq, Repr, Inhabited

structure Sig where
  /-- dimension parameter of `self` / of the right operand -/
  lhs : Option TyP
  rhs : Option TyP
  /-- base-units parameter of `self` / of the right operand -/
  lhsU : Option TyP
  rhsU : Option TyP
  out : TOut
  kindBounds : List (TyP × Nat)
  symBounds : List (TyP × TOp × TArg)
deriving DecidableEq, Repr, Inhabited

/-- the output quantity type for operand types `env` (and the exponent `e` of `powi`) -/
def TOut.eval (env : TyP → QTy) (e : Int) (lhs : Option TyP) : TOut → Option QTy
  | .same d => some (env d)
  | .self => lhs.map env
  | .op .sum (.dim a) (.dim b) kk => some ⟨zipDims (· + ·) (env a).dim (env b).dim, if kk then (env a).kind else 0⟩
  | .op .diff (.dim a) (.dim b) kk => some ⟨zipDims (· - ·) (env a).dim (env b).dim, if kk then (env a).kind else 0⟩
  | .op .sum .z0 (.dim b) kk => some ⟨(env b).dim.map (fun d => 0 + d), if kk then (env b).kind else 0⟩
  | .op .diff .z0 (.dim b) kk => some ⟨(env b).dim.map (fun d => 0 - d), if kk then (env b).kind else 0⟩
  | .op .negate (.dim a) .none kk => some ⟨(env a).dim.map (fun d => -d), if kk then (env a).kind else 0⟩
  | .op .prod (.dim a) .e kk => some ⟨(env a).dim.map (fun d => d * e), if kk then (env a).kind else 0⟩
  | .op .partialQuot (.dim a) .p2 false => outRoot 2 (env a)
  | .op .partialQuot (.dim a) .p3 false => outRoot 3 (env a)
  | _ => none

def Sig.outTy (s : Sig) (env : TyP → QTy) (e : Int) : Option QTy := s.out.eval env e s.lhs

/-- a per-exponent typenum bound: `PartialDiv<Pn>` holds iff `n` divides every exponent; the ring
    operations are total on typenum integers -/
def symBoundHolds (env : TyP → QTy) : TyP × TOp × TArg → Bool
  | (d, .partialQuot, .p2) => (env d).dim.all (fun x => x % 2 == 0)
  | (d, .partialQuot, .p3) => (env d).dim.all (fun x => x % 3 == 0)
  | (_, .partialQuot, _) => false
  | (_, .other, _) => false
  | _ => true

/-- all `where` bounds of the signature hold for the operand types `env` -/
def Sig.holds (s : Sig) (te : TyEnv) (env : TyP → QTy) : Bool :=
  s.kindBounds.all (fun b => te.has (env b.1).kind b.2) && s.symBounds.all (symBoundHolds env)

end Uom.Sig
