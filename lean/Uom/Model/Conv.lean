import Uom.Model.Storage
/-!
# The conversion kernel: `to_base`, `from_base`, `change_base` of src/system.rs, line by line

`coef`  = `N::coefficient()`
`consA` = `N::constant(ConstantOp::Add)`, `consS` = `N::constant(ConstantOp::Sub)`
`f`     = `V::coefficient() $(* U::$name::coefficient().powi(D::$symbol::to_i32()))+`
          (a left fold over the base quantities, in system order, starting from `one`)
-/
namespace Uom

/-- `V::coefficient() * p₁ * p₂ * … * pₙ` where `pᵢ = Uᵢ::coefficient().powi(Dᵢ)` -/
def baseFactor (S : Storage) (ps : List S.T) : S.T := ps.foldl S.mul S.one

/-- `to_base::<D, U, V, N>(&v)` -/
def toBase (S : Storage) (coef consA f : S.T) (v : S.V) : S.V :=
  let v := S.conv v
  if S.ge coef f then
    S.value (S.mul (S.add v consA) (S.div coef f))
  else
    S.value (S.div (S.mul (S.add v consA) coef) f)

/-- `from_base::<D, U, V, N>(&v)` -/
def fromBase (S : Storage) (coef consS f : S.T) (v : S.V) : S.V :=
  let v := S.conv v
  if S.lt coef f then
    S.value (S.sub (S.mul v (S.div f coef)) consS)
  else
    S.value (S.sub (S.div v (S.div coef f)) consS)

/-- `change_base::<D, Ul, Ur, V>(&v)`: `r`, `l` are the base factors of `Ur`, `Ul` for `D` -/
def changeBase (S : Storage) (l r : S.T) (v : S.V) : S.V :=
  let v := S.conv v
  if S.ge r l then
    S.value (S.mul v (S.div r l))
  else
    S.value (S.div v (S.div l r))

/-- `q.floor::<N>()`, `ceil`, `round`, `trunc`, `fract` (src/quantity.rs):
    `Self::new::<N>(self.get::<N>().op())` -/
def roundInUnit (S : Storage) (op : S.V → S.V) (coef consA consS f : S.T) (v : S.V) : S.V :=
  toBase S coef consA f (op (fromBase S coef consS f v))

/-- exact integer power of a rational (`Ratio::pow`, and the `recip`+`pow` of the big types) -/
def ratPowi (c : Rat) (e : Int) : Rat := c ^ e

end Uom
