import Uom.Model.Storage
/-!
# The conversion kernel: `to_base`, `from_base`, `change_base` of src/system.rs, line by line

`coef`  = `N::coefficient()`
`consA` = `N::constant(ConstantOp::Add)`, `consS` = `N::constant(ConstantOp::Sub)`
`f`     = `V::coefficient() $(* U::$name::coefficient().powi(D::$symbol::to_i32()))+`
          (a left fold over the base quantities, in system order, starting from `one`)
-/
namespace Uom

/-- `V::coefficient() * p₁ * p₂ * … * pₙ` where `pᵢ = Uᵢ::coefficient().powi(Dᵢ)` -/
def baseFactor (S : Storage) (ps : List S.T) : S.T := ps.foldl S.mul S.one

/-- `to_base::<D, U, V, N>(&v)` -/
def toBase (S : Storage) (coef consA f : S.T) (v : S.V) : S.V :=
  let v := S.conv v
  if S.ge coef f then
    S.value (S.mul (S.add v consA) (S.div coef f))
  else
    S.value (S.div (S.mul (S.add v consA) coef) f)

/-- `from_base::<D, U, V, N>(&v)` -/
def fromBase (S : Storage) (coef consS f : S.T) (v : S.V) : S.V :=
  let v := S.conv v
  if S.lt coef f then
    S.value (S.sub (S.mul v (S.div f coef)) consS)
  else
    S.value (S.sub (S.div v (S.div coef f)) consS)

/-- `change_base::<D, Ul, Ur, V>(&v)`: `r`, `l` are the base factors of `Ur`, `Ul` for `D` -/
def changeBase (S : Storage) (l r : S.T) (v : S.V) : S.V :=
  let v := S.conv v
  if S.ge r l then
    S.value (S.mul v (S.div r l))
  else
    S.value (S.div v (S.div l r))

/-- `q.floor::<N>()`, `ceil`, `round`, `trunc`, `fract` (src/quantity.rs):
    `Self::new::<N>(self.get::<N>().op())` -/
def roundInUnit (S : Storage) (op : S.V → S.V) (coef consA consS f : S.T) (v : S.V) : S.V :=
  toBase S coef consA f (op (fromBase S coef consS f v))

/-- `num_traits::pow::pow(base, exp)`: exponentiation by squaring, exactly as the library multiplies
    (so that the float instance rounds where the real code rounds); `fuel` bounds the two loops -/
def powLoop2 (mul : α → α → α) : Nat → α → α → Nat → α
  | 0, _, acc, _ => acc
  | fuel + 1, base, acc, exp =>
    if exp > 1 then
      let exp := exp / 2
      let base := mul base base
      let acc := if exp % 2 = 1 then mul acc base else acc
      powLoop2 mul fuel base acc exp
    else acc

def powLoop1 (mul : α → α → α) : Nat → α → Nat → α × Nat
  | 0, base, exp => (base, exp)
  | fuel + 1, base, exp => if exp % 2 = 0 then powLoop1 mul fuel (mul base base) (exp / 2) else (base, exp)

def powNat (one : α) (mul : α → α → α) (base : α) (exp : Nat) : α :=
  if exp = 0 then one
  else
    let (base, exp) := powLoop1 mul 64 base exp
    if exp = 1 then base else powLoop2 mul 64 base base exp

/-- `ConversionFactor::powi` for float storage (src/lib.rs): `pow(self, e)` for `e > 0`,
    `pow(self.recip(), −e)` for `e < 0`, `one()` for `e = 0` -/
def flPowi (f : Fmt) (c : Fl) (e : Int) : Fl :=
  if e = 0 then Fl.one f
  else if e < 0 then powNat (Fl.one f) (Fl.mul f) (Fl.recip f c) (-e).toNat
  else powNat (Fl.one f) (Fl.mul f) c e.toNat

/-- exact integer power of a rational (`Ratio::pow`, and the `recip`+`pow` of the big types) -/
def ratPowi (c : Rat) (e : Int) : Rat := c ^ e

end Uom
