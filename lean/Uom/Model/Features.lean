/-!
# Feature gates (src/features.rs)

    #[cfg(feature = "autoconvert")]      macro_rules! autoconvert { ($($tt:tt)*) => { $($tt)* }; }
    #[cfg(not(feature = "autoconvert"))] macro_rules! autoconvert { ($($tt:tt)*) => {}; }

Every gate macro has one definition per `cfg` predicate; a definition either passes its body through or
drops it.  `translate.py` (site `features`) regenerates the list; `active σ t g` says whether, under the
feature assignment `σ` (and `t`: compiling tests), code wrapped in `g! { … }` is compiled.
-/
namespace Uom.Features

inductive Cfg where
  | feat (i : Nat)
  | test
  | not (c : Cfg)
  | any (cs : List Cfg)
  | all (cs : List Cfg)
deriving Repr, Inhabited

mutual
def Cfg.eval (σ : Nat → Bool) (t : Bool) : Cfg → Bool
  | .feat i => σ i
  | .test => t
  | .not c => !(c.eval σ t)
  | .any cs => Cfg.evalAny σ t cs
  | .all cs => Cfg.evalAll σ t cs
def Cfg.evalAny (σ : Nat → Bool) (t : Bool) : List Cfg → Bool
  | [] => false
  | c :: cs => c.eval σ t || Cfg.evalAny σ t cs
def Cfg.evalAll (σ : Nat → Bool) (t : Bool) : List Cfg → Bool
  | [] => true
  | c :: cs => c.eval σ t && Cfg.evalAll σ t cs
end

structure Gate where
  name : Nat
  cond : Cfg
  passes : Bool
deriving Repr, Inhabited

/-- the definitions of gate `g` that exist in configuration `(σ, t)` -/
def defsOf (gates : List Gate) (σ : Nat → Bool) (t : Bool) (g : Nat) : List Gate :=
  gates.filter fun x => x.name == g && x.cond.eval σ t

/-- `some b`: gate `g` has exactly one definition in this configuration and it passes (`b = true`) or drops
    its body; `none`: zero or several definitions (a compile error at the first use) -/
def active (gates : List Gate) (σ : Nat → Bool) (t : Bool) (g : Nat) : Option Bool :=
  match defsOf gates σ t g with
  | [x] => some x.passes
  | _ => none

end Uom.Features
