import Uom.Model.SoftFloat
/-!
# Storage algebras: the model of `Conversion<V>` / `ConversionFactor<V>` (src/lib.rs)

`V` is the stored type, `T` the conversion-factor type (`type T` of `Conversion`).
* floats:        `V = T = Fl`            (`conversion = *self`, `value = self`)
* big rationals: `V = T = Rat`
* (big) integers: `V = Int`, `T = Rat`   (`conversion = self.into()`, `value = to_integer()` — truncation toward zero)
* complex:       `V = Fl × Fl`, `T = Fl` (`conversion = norm()`, `value = Complex::new(self, 0)`)
-/
namespace Uom

structure Storage where
  V : Type
  T : Type
  /-- `Conversion::conversion(&self)` -/
  conv : V → T
  /-- `ConversionFactor::value(self)` -/
  value : T → V
  /-- `V::coefficient()` – the default `one()` -/
  one : T
  add : T → T → T
  sub : T → T → T
  mul : T → T → T
  div : T → T → T
  lt : T → T → Bool
  ge : T → T → Bool
  /-- `constant(ConstantOp::Add)` of a unit without a constant term -/
  constAdd : T
  /-- `constant(ConstantOp::Sub)` of a unit without a constant term -/
  constSub : T

/-- float storage -/
@[reducible] def flS (f : Fmt) : Storage where
  V := Fl
  T := Fl
  conv := id
  value := id
  one := Fl.one f
  add := Fl.add f
  sub := Fl.sub f
  mul := Fl.mul f
  div := Fl.div f
  lt := Fl.lt
  ge := Fl.ge
  constAdd := Fl.zero f true     -- `-0.0`
  constSub := Fl.zero f false    -- `0.0`

/-- exact rational storage (BigRational); also the specification side for the float theorems -/
@[reducible] def ratS : Storage where
  V := Rat
  T := Rat
  conv := id
  value := id
  one := 1
  add := (· + ·)
  sub := (· - ·)
  mul := (· * ·)
  div := (· / ·)
  lt := fun a b => decide (a < b)
  ge := fun a b => decide (b ≤ a)
  constAdd := 0
  constSub := 0

/-- truncation toward zero: `Ratio::to_integer` -/
def ratTrunc (r : Rat) : Int := Int.tdiv r.num r.den

/-- integer storage (BigInt / BigUint / primitive integers while nothing overflows) -/
@[reducible] def intS : Storage where
  V := Int
  T := Rat
  conv := fun v => (v : Rat)
  value := ratTrunc
  one := 1
  add := (· + ·)
  sub := (· - ·)
  mul := (· * ·)
  div := (· / ·)
  lt := fun a b => decide (a < b)
  ge := fun a b => decide (b ≤ a)
  constAdd := 0
  constSub := 0

/-- complex storage *as the code is*: the conversion factor of a value is its norm (supplied by the
    caller, `hypot` being a libm function), and `value` re-embeds a real. -/
@[reducible] def cplxS (f : Fmt) (norm : Fl × Fl → Fl) : Storage where
  V := Fl × Fl
  T := Fl
  conv := norm
  value := fun x => (x, Fl.zero f false)
  one := Fl.one f
  add := Fl.add f
  sub := Fl.sub f
  mul := Fl.mul f
  div := Fl.div f
  lt := Fl.lt
  ge := Fl.ge
  constAdd := Fl.zero f true
  constSub := Fl.zero f false

end Uom
