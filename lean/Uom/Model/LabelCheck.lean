import Uom.Model.Text
/-!
# Per-quantity label obligations (C12), decided by the kernel quantity by quantity
-/
namespace Uom

def sameConversion (a b : UnitDecl) : Bool :=
  (decide (a.coef = b.coef) || decide (a.coef.exact = b.coef.exact)) &&
  (decide (a.cons = b.cons) || decide (a.cons.map CExpr.exact = b.cons.map CExpr.exact))

/-- `Str`-level lookup: the parser's first-match rule over the declaration order -/
def lookupStr (q : QuantityDecl) (l : Str) : Option UnitDecl :=
  q.units.find? fun u => u.abbr == l || u.sing == l || u.plur == l

/-- a label never denotes two different conversions: every label of every unit resolves (first match)
    to a unit with the same coefficient and offset -/
def labelsFunctional (q : QuantityDecl) : Bool :=
  q.units.all fun u => [u.abbr, u.sing, u.plur].all fun l =>
    match lookupStr q l with
    | some v => sameConversion u v
    | none => false

/-- the first / last `k` bytes of a string, by arithmetic on its code -/
def Str.firstBytes (s : Str) (k : Nat) : Bytes :=
  let k := min k s.len
  (Str.mk k (s.code / 256 ^ (s.len - k))).bytes

def Str.lastBytes (s : Str) (k : Nat) : Bytes :=
  let k := min k s.len
  (Str.mk k (s.code % 256 ^ k)).bytes

/-- the label neither begins nor ends with a `White_Space` character (all of which are ≤ 3 bytes) -/
def Str.edgeClean (s : Str) : Bool :=
  wsPrefixLen (s.firstBytes 3) == 0 && wsSuffixLen (s.lastBytes 3) == 0

def labelsEdgeClean (q : QuantityDecl) : Bool :=
  q.units.all fun u => u.abbr.edgeClean && u.sing.edgeClean && u.plur.edgeClean

/-- labels contain no U+000A..: they are single-line, and the only label that may be empty is allowed -/
def labelOk (q : QuantityDecl) : Bool := labelsFunctional q && labelsEdgeClean q

end Uom
