import Uom.Model.Conv
/-!
# Oracles: the specification side evaluated on the *implementation's* observed output

Each oracle answers `pass`, `fail why`, or `guard why` (the property's own side condition – "no
overflow or underflow intervenes" – does not hold for this input, so nothing is claimed).
All arithmetic here is exact (`Rat`).
-/
namespace Uom

inductive Verdict where
  | pass
  | fail (why : String)
  | guard (why : String)
deriving Repr, Inhabited

namespace Fl

/-- finite, and either zero or of magnitude ≥ the least normal number -/
def isNormalOrZero (f : Fmt) : Fl → Bool
  | fin _ m _ => m = 0 || decide (2 ^ (f.p - 1) ≤ m)
  | _ => false

def isNormal (f : Fmt) : Fl → Bool
  | fin _ m _ => decide (2 ^ (f.p - 1) ≤ m)
  | _ => false

end Fl

def ratAbs (r : Rat) : Rat := if r < 0 then -r else r
def ratMax (a b : Rat) : Rat := if a < b then b else a

/-- unit round-off `2^-p` -/
def uro (f : Fmt) : Rat := 1 / ((2 ^ f.p : Nat) : Rat)

/-- product `r = a ⊗ b` stayed in the normal range (or is an exact zero) -/
def okMul (f : Fmt) (a b r : Fl) : Bool :=
  Fl.isNormal f r || (r.isZero && (a.isZero || b.isZero))

/-- sum/difference `r = a ⊕ b`: never inexact in the subnormal range, so only overflow matters -/
def okAdd (r : Fl) : Bool := r.isFinite

structure ConvCase where
  fmt : Fmt
  coef : Fl
  consA : Fl
  consS : Fl
  pows : List Fl
  v : Fl

/-- intermediate values of `to_base`, following the branch the code takes -/
def toBaseNormal (c : ConvCase) (f : Fl) : Bool :=
  let S := flS c.fmt
  let s := S.add c.v c.consA
  if S.ge c.coef f then
    let k := S.div c.coef f
    let r := S.mul s k
    okAdd s && Fl.isNormal c.fmt k && okMul c.fmt s k r
  else
    let t := S.mul s c.coef
    let r := S.div t f
    okAdd s && okMul c.fmt s c.coef t && (Fl.isNormal c.fmt r || (r.isZero && t.isZero))

def fromBaseNormal (c : ConvCase) (f : Fl) : Bool :=
  let S := flS c.fmt
  if S.lt c.coef f then
    let k := S.div f c.coef
    let t := S.mul c.v k
    let r := S.sub t c.consS
    Fl.isNormal c.fmt k && okMul c.fmt c.v k t && okAdd r
  else
    let k := S.div c.coef f
    let t := S.div c.v k
    let r := S.sub t c.consS
    Fl.isNormal c.fmt k && (Fl.isNormal c.fmt t || (t.isZero && c.v.isZero)) && okAdd r

/-- C03 oracle for `new::<N>(v).value = obs` -/
def oracleNew (c : ConvCase) (obs : Fl) : Verdict :=
  let f := baseFactor (flS c.fmt) c.pows
  let isId := (Fl.cmp c.coef f == some 0) && c.consA.isZero && c.coef.isFinite && !c.coef.isZero
  if isId then
    -- the bit-exact identity clause
    if obs = c.v then .pass else .fail "identity unit in its own base: new(v) is not bit-identical to v"
  else if !(c.v.isFinite && c.coef.isFinite && f.isFinite) || c.coef.isZero || f.isZero then .guard "non-finite"
  else if !(toBaseNormal c f) then .guard "overflow/underflow"
  else if !obs.isFinite then .fail "non-finite result although no intermediate overflows"
  else
    let exact := (c.v.toRat + c.consA.toRat) * c.coef.toRat / f.toRat
    if ratAbs (obs.toRat - exact) ≤ 4 * uro c.fmt * ratAbs exact then .pass
    else .fail "new(v) is more than 4u away from (v + c)·coef/f"

/-- C03 oracle for `Quantity{value: v}.get::<N>() = obs` -/
def oracleGet (c : ConvCase) (obs : Fl) : Verdict :=
  let f := baseFactor (flS c.fmt) c.pows
  let isId := (Fl.cmp c.coef f == some 0) && c.consS.isZero && c.coef.isFinite && !c.coef.isZero
  if isId then
    if obs = c.v then .pass else .fail "identity unit in its own base: get() is not bit-identical to the stored value"
  else if !(c.v.isFinite && c.coef.isFinite && f.isFinite) || c.coef.isZero || f.isZero then .guard "non-finite"
  else if !(fromBaseNormal c f) then .guard "overflow/underflow"
  else if !obs.isFinite then .fail "non-finite result although no intermediate overflows"
  else
    let scaled := c.v.toRat * f.toRat / c.coef.toRat
    let exact := scaled - c.consS.toRat
    if ratAbs (obs.toRat - exact) ≤ uro c.fmt * (3 * ratAbs scaled + 2 * ratAbs exact) then .pass
    else .fail "get() is more than a few u of max(result, offset term) away from v·f/coef − c"

/-- C03 oracle for `get(new(v)) = obs` -/
def oracleRoundTrip (c : ConvCase) (obs : Fl) : Verdict :=
  let S := flS c.fmt
  let f := baseFactor S c.pows
  let isId := (Fl.cmp c.coef f == some 0) && c.consS.isZero && c.coef.isFinite && !c.coef.isZero
  if isId then
    if obs = c.v then .pass else .fail "identity unit: get(new(v)) is not bit-identical to v"
  else if !(c.v.isFinite && c.coef.isFinite && f.isFinite) || c.coef.isZero || f.isZero then .guard "non-finite"
  else
    let stored := toBase S c.coef c.consA f c.v
    if !(toBaseNormal c f) || !(fromBaseNormal { c with v := stored } f) then .guard "overflow/underflow"
    else if !obs.isFinite then .fail "non-finite round trip although no intermediate overflows"
    else
      let x := c.v.toRat
      let k := c.consA.toRat
      if ratAbs (obs.toRat - x) ≤ 8 * uro c.fmt * (ratAbs x + ratAbs k) then .pass
      else .fail "get(new(v)) is more than 8u·(|v|+|offset|) away from v"

/-- nearest integer (ties toward +∞; only used to find *an* integer close to a value) -/
def ratNearest (r : Rat) : Int := (r + 1 / 2).floor

/-- C16 oracle: `obs` is the stored value of `q.<op>::<N>()` for `q.value = c.v`;
    `op`: 0 floor, 1 ceil, 2 round, 3 trunc -/
def oracleRounding (c : ConvCase) (op : Nat) (obs : Fl) : Verdict :=
  let S := flS c.fmt
  let f := baseFactor S c.pows
  if !(c.v.isFinite && c.coef.isFinite && f.isFinite) || c.coef.isZero || f.isZero then .guard "non-finite"
  else
    let g := fromBase S c.coef c.consS f c.v
    if !(fromBaseNormal c f) || !g.isFinite then .guard "overflow/underflow"
    else
      let gi := match op with
        | 0 => Fl.floor c.fmt g | 1 => Fl.ceil c.fmt g | 2 => Fl.round c.fmt g | _ => Fl.trunc c.fmt g
      if !(toBaseNormal { c with v := gi } f) then .guard "overflow/underflow"
      else if !obs.isFinite then .fail "non-finite result"
      else
        let u := uro c.fmt
        let k := ratAbs c.consS.toRat
        -- value of the original and of the result, expressed in the unit, exactly
        let x := c.v.toRat * f.toRat / c.coef.toRat - c.consS.toRat
        let r := obs.toRat * f.toRat / c.coef.toRat - c.consS.toRat
        let n : Rat := (ratNearest r : Int)
        let tol := 8 * u * (ratAbs x + k + 1)
        if ratAbs (r - n) > 8 * u * (ratAbs n + k) then .fail "result read back in the unit is not an integer within 8u"
        else
          let okSide := match op with
            | 0 => r ≤ x + tol && x - 1 - tol < r
            | 1 => x - tol ≤ r && r < x + 1 + tol
            | 2 => ratAbs (r - x) ≤ 1 / 2 + tol
            | _ => ratAbs r ≤ ratAbs x + tol && ratAbs x - 1 - tol < ratAbs r
          if okSide then .pass else .fail "result does not bracket the original on the correct side"

/-- standard roundings of an exact rational: 0 floor, 1 ceil, 2 round half away from zero, 3 trunc -/
def stdRound (op : Nat) (x : Rat) : Rat :=
  match op with
  | 0 => (x.floor : Int)
  | 1 => (-((-x).floor) : Int)
  | 2 => if x < 0 then (-((-x + 1 / 2).floor) : Int) else ((x + 1 / 2).floor : Int)
  | _ => if x < 0 then (-((-x).floor) : Int) else (x.floor : Int)

/-- C16, sharp form: `obs` (stored) must be the construction — within 4u — of the *standard* rounding
    (op 0–3; 4 = fract = x − trunc x) of `g`, the value the implementation itself reads in the unit -/
def oracleStdRounding (c : ConvCase) (op : Nat) (g obs : Fl) : Verdict :=
  let S := flS c.fmt
  let f := baseFactor S c.pows
  if !(g.isFinite && c.coef.isFinite && f.isFinite) || c.coef.isZero || f.isZero then .guard "non-finite"
  else
    let x := g.toRat
    let r : Rat := if op = 4 then x - stdRound 3 x else stdRound op x
    let exact := (r + c.consA.toRat) * c.coef.toRat / f.toRat
    -- the real computation must stay in the normal range for the bound to apply
    let ri := match op with
      | 0 => Fl.floor c.fmt g | 1 => Fl.ceil c.fmt g | 2 => Fl.round c.fmt g | 3 => Fl.trunc c.fmt g | _ => Fl.fract c.fmt g
    if !(toBaseNormal { c with v := ri } f) then .guard "overflow/underflow"
    else if !obs.isFinite then .fail "non-finite result"
    else if ratAbs (obs.toRat - exact) ≤ 4 * uro c.fmt * ratAbs exact then .pass
    else .fail "result is not the construction of the standard rounding of the value read in the unit"

end Uom
