import Uom.Model.Table
import Uom.Model.SoftFloat
import Uom.Model.Storage
import Uom.Model.Conv
import Uom.Model.Oracle
import Uom.Model.Lines
